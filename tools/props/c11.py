"""C11 — truncation and bit decomposition return the canonical bits."""
from plib import *
from props.builder import Prog
from props.common import ProgRunner

EXTRA_AUDITS = ["WidgetTie"]
LEAN_TARGETS = ["Plonk.Props.C11", "Plonk.Props.WidgetTie"]
ASSUMPTIONS = ["prover success coincides with 'every row identity holds' outside explicit bad-challenge sets (RO assumption)"]
THEOREMS_NOTE = "Plonk/Props/C11.lean"


def vals(rng, n):
    top = 1 << n
    out = [0, R - 1, (top - 1) % R, top % R, rng.fe()]
    if top + 0 < (1 << 256) - R:
        pass
    # values whose sum with r still fits N bits are only possible for N >= 255
    if n >= 255:
        out += [0, 1, rng.fe() % ((1 << n) - R)]
    out.append(rng.fe() % top if top < R else rng.fe())
    return out


def trunc_case(rng, n, forge):
    p = Prog(); p.tags = ["truncate"]
    v = rng.choice(vals(rng, n))
    x = p.w(v)
    o = p.trunc(n, x)
    if forge:
        # the alias low part: (v + r) mod 2^n  — must be rejected by the canonical guard
        alias = (v + R) % (1 << n) if n > 0 else 0
        if alias != p.val(o):
            p.setw(o, alias); p.unsat(); p.tags.append("forged-low-alias")
    return p.case()


def decomp_case(rng, n, mode):
    p = Prog(); p.tags = ["decomposition"]
    v = rng.choice(vals(rng, n))
    if mode == 1 and n <= 254:
        v = rng.fe() % (1 << n)
    x = p.w(v)
    bits = p.decomp(n, x)
    p.tags.append("in-range" if v < (1 << n) else "out-of-range")
    key = None
    if mode == 2 and n >= 255 and v + R < (1 << n):
        # alias: the bits of v + r recompose to v modulo r; the property says no other bit vector satisfies
        alias = v + R
        for i, b in enumerate(bits):
            p.setw(b, (alias >> i) & 1)
        # the intermediate accumulators must follow the forged bits
        p.unknown()
        p.tags.append("alias-bits-x-plus-r")
    return p.case(), (n, v)


def run(ctx, broken):
    rng = SplitMix(ctx.seed * 1000003 + 11)
    r = ProgRunner(ctx, "C11")
    cs = []
    reps = 1 if ctx.tier == "quick" else 5
    for n in range(0, 255):
        for rep in range(reps):
            cs.append(trunc_case(rng, n, forge=(n + rep) % 2 == 0))
    for n in range(1, 257):
        for rep in range(reps):
            c, _ = decomp_case(rng, n, (n + rep) % 2)
            cs.append(c)
    # complete `x + r` alias assignments (every dependent witness consistent): only the canonical guard rejects them
    from props.common import full_alias_cases
    specs = []
    widths = list(range(1, 255)) if ctx.tier != "quick" else [1, 2, 3, 31, 32, 63, 64, 65, 127, 128, 129, 191, 192, 193, 250, 253, 254]
    for n in widths:
        # v = 0 is the boundary of the canonical guard (alias == r exactly: passes a `<= r` guard), v = 1 its neighbour
        for v in ([0, 1, rng.below(1 << 16), rng.fe() % (1 << 250)] if ctx.tier == "quick" else [0, 1, 5, rng.below(1 << 16), rng.fe() % (1 << 250)]):
            specs.append(("w %s;trunc %d $0" % (hx(v), n), 0, v, ["truncate", "alias-x-plus-r"]))
    cs += full_alias_cases(ctx, specs)
    # NON-BOOLEAN bit in a decomposition (layout-driven): bit i := 2 (and for the top bit also 3, 1/2^k-style values) with the
    # value chosen so that the weighted sum still equals the input and all accumulators follow the forged bits: only the
    # boolean constraint of THAT bit rejects it. Every bit position of small widths, the top / bottom / a random bit of all others.
    nb = []
    widths_nb = ([1, 2, 3, 4, 5, 7, 8, 9, 31, 63, 64, 65, 127, 251, 252, 253, 254] if ctx.tier == "quick" else list(range(1, 255)))
    for n in widths_nb:
        for i in sorted(set([0, n - 1, rng.below(n)] if n > 9 else range(n))):
            for forged_bit in ((2,) if i < n - 1 else (2, 3)):
                bits = [rng.below(2) for _ in range(n)]
                bits[i] = forged_bit
                v = sum(b << j for j, b in enumerate(bits)) % R
                nb.append((n, i, bits, v))
    dumps = ctx.impl(["dump w %s;decomp %d $0" % (hx(v), n) for (n, i, bits, v) in nb])
    for (n, i, bits, v), dmp in zip(nb, dumps):
        if " W " not in dmp:
            continue
        W = dmp.split(" W ")[1].split(" P ")[0].split(",")
        p = Prog(); x = p.w(v)
        first = p.nwit0 + 1
        if len(W) - first != 2 * n:
            continue                     # another layout: the correspondence reports it
        p.decomp(n, x)
        acc = 0
        for j in range(n):
            p.op("setw #%d %s" % (first + 2 * j, hx(bits[j])))
            acc = (acc + (bits[j] << j)) % R
            p.op("setw #%d %s" % (first + 2 * j + 1, hx(acc)))
        p.sat = True; p.unsat()
        p.tags = ["decomposition", "non-boolean-bit", "top-bit" if i == n - 1 else "inner-bit"]
        c_ = p.case(); c_["rv"] = None          # the returned witnesses are overwritten on purpose
        cs.append(c_)
    r.run(cs)
    # ---- the N in {255,256} alias (model theorem decomp_alias_255): replay end-to-end on the implementation
    from props.common import parse, impl_verdict
    alias_lines, metas = [], []
    for n in (255, 256):
        for v in (0, 1, 5):
            p = Prog(); x = p.w(v); bits = p.decomp(n, x)
            alias = v + R
            # forged bits and the accumulators they imply: acc_i is the output of the i-th gate_add;
            # witness layout per bit: [bit_i, acc_i]; first bit witness index = nwit0 + 1
            acc = 0
            for i in range(n):
                b = (alias >> i) & 1
                acc = (acc + (b << i)) % R
                p.op("setw #%d %s" % (p.nwit0 + 1 + 2 * i, hx(b)))
                p.op("setw #%d %s" % (p.nwit0 + 2 + 2 * i, hx(acc)))
            alias_lines.append("prog " + p.src()); metas.append((n, v))
    outs = ctx.impl(alias_lines)
    mouts = ctx.model(alias_lines)
    for (n, v), l, o, mo in zip(metas, alias_lines, outs, mouts):
        d = parse(o)
        if impl_verdict(d) == "sat":
            ctx.violation("decomposition-alias:N=%d:x=%d" % (n, v), {
                "kind": "implementation-vs-property",
                "why": "component_decomposition::<%d> accepts the bits of x + r for x = %d: a second bit vector satisfies it "
                       "(property: 'no other bit vector satisfies it', quantified up to N = 256)" % (n, v),
                "request": l[:2000] + " ...", "impl_output": o, "model_output": mo})
    st = r.report(broken)
    st["evaluations"] += len(alias_lines)
    st["exhaustive_in_width"] = True
    st["rule"] = ("component_truncate for every N 0..=254 and component_decomposition for every N 1..=256 (layout exhaustive); "
                  "values 0, r-1, 2^N-1, 2^N, random, random below 2^N; truncation output forged to the (x+r) alias (expect unsat); decomposition with ONE non-boolean bit (2 or 3) at the top / bottom / a random position and accumulators following the forged bits; COMPLETE x+r alias assignments (low, high, all "
                  "range accumulators and guard helper wires consistent, generated by the implementation's own witness generator "
                  "under a host-view override) at limb-boundary and extreme widths (all widths in thorough); "
                  "decomposition bits forged to the bits of x+r for N in {255,256} (replayed end-to-end). Each case: layout/witness "
                  "hashes impl vs model, returned values vs canonical bits (Python oracle), prove+verify vs model sysSat.")
    return st
