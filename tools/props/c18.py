"""C18 — compilation and proving are deterministic and schedule-independent."""
import os, subprocess
from plib import *
from props.common import LineRunner
from props.pcommon import *

LEAN_TARGETS = ["Plonk.Props.C18"]
EXTRA_CRATES = ["harness-alloc"]   # rebuilt from /repo's working tree on every run
ASSUMPTIONS = ["real thread interleavings, the transcript-label cache mutex and memory-model effects are outside any executable model; "
               "Rust's data-race freedom for safe code is trusted", "rayon's order-preserving collect / par_chunks_mut are trusted"]
THEOREMS_NOTE = "Plonk/Props/C18.lean (+ C19Fft.fft_threads_irrelevant)"

ALLOC_BIN = os.path.join(os.path.dirname(__file__), "..", "..", "harness-alloc", "target", "release", "plonk-verif-harness-alloc")


def big_program(rng, gates):
    """a satisfiable program of the given size using only ops the alloc-only twin supports"""
    ops, regs, n = [], 0, 4
    def w(v):
        nonlocal regs
        ops.append("w %s" % hx(v)); regs += 1; return regs - 1
    while n < gates:
        k = rng.below(5)
        if k == 0 and gates - n >= 12:
            x = w(rng.fe() % (1 << 64)); ops.append("rangebits 64 $%d" % x); n += 10
        elif k == 1 and gates - n >= 45:
            a, b = w(rng.fe()), w(rng.fe()); ops.append("xor 4 $%d $%d" % (a, b)); regs += 1; n += 0
            n = None
        elif k == 2:
            ops.append("pub %s" % hx(rng.fe())); regs += 1; n += 1
        elif k == 3:
            x = w(rng.below(2)); ops.append("bool $%d" % x); n += 1
        else:
            a, b = w(rng.fe()), w(rng.fe()); ops.append("gadd 1 2 3 4 5 - $%d $%d #0" % (a, b)); regs += 1; n += 1
        if n is None:
            break
    return ";".join(ops)


def simple_program(rng, gates):
    ops, regs, n = [], 0, 4
    while n < gates:
        k = rng.below(4)
        if k == 0 and gates - n >= 10:
            ops.append("w %s" % hx(rng.fe() % (1 << 64))); ops.append("rangebits 64 $%d" % regs); regs += 1; n += 10
        elif k == 1:
            ops.append("pub %s" % hx(rng.fe())); regs += 1; n += 1
        elif k == 2:
            ops.append("w %s" % hx(rng.below(2))); ops.append("bool $%d" % regs); regs += 1; n += 1
        else:
            ops.append("w %s" % hx(rng.fe())); ops.append("w %s" % hx(rng.fe()))
            ops.append("gadd 1 2 3 4 5 - $%d $%d #0" % (regs, regs + 1)); regs += 3; n += 1
    return ";".join(ops)


def run_bin(binary, lines, env=None):
    e = dict(os.environ)
    if env:
        e.update(env)
    p = subprocess.run([binary] if "alloc" in binary else [binary, "run"], input="\n".join(lines) + "\n", stdout=subprocess.PIPE,
                       stderr=subprocess.PIPE, text=True, env=e)
    return [l for l in p.stdout.split("\n") if l]


def run(ctx, broken):
    rng = SplitMix(ctx.seed * 1000003 + 18)
    srs = srs_draws(rng)
    # incl. EXACTLY full domains (gates = 2^k: no padding row hides a dropped tail of a chunked loop)
    sizes = [20, 600, 1024] if ctx.tier == "quick" else [20, 100, 500, 512, 600, 1024, 1100, 2048, 2100, 4096, 4200]
    lines = []
    for g in sizes:
        draws = [draw_hex(rng) for _ in range(14)]
        deg = 1
        while deg < g + 6:
            deg *= 2
        lines.append(prove_line(srs, deg, b"c18", draws, 3, simple_program(rng, g)))
    # (1) the Lean specification prover (sequential, deterministic by construction) == the real prover, small + one parallel-path size
    r = LineRunner(ctx, "C18")
    r.run([{"line": l, "tags": ["vs-model gates~%d" % g], "expect_proof": True} for l, g in zip(lines, sizes) if g <= 700])
    # (2) pool sizes, repeated runs, fresh processes (different hash seeds): bytes must be identical
    ref = run_bin(ctx.harness_bin(), lines, {"RAYON_NUM_THREADS": "1"})
    # the same requests in reverse order and repeated within ONE process (process-global caches keyed too coarsely)
    twice = run_bin(ctx.harness_bin(), list(reversed(lines)) + lines, {"RAYON_NUM_THREADS": "1"})
    want = list(reversed(ref)) + ref
    if twice != want:
        k = next((i for i, (a, b) in enumerate(zip(twice, want)) if a != b), 0)
        ctx.violation("impl:request-order", {"kind": "implementation-vs-property", "why": "the result of a compile+prove request depends on the "
                      "requests the same process served before", "request": (list(reversed(lines)) + lines)[k][:400],
                      "outputs": {"fresh": want[k][:300], "after-others": twice[k][:300] if k < len(twice) else "missing"}})
    pools = [2, 3, 5, 6, 7, 8, 12, 17] if ctx.tier == "quick" else [1, 2, 3, 4, 5, 6, 7, 8, 9, 10, 11, 12, 13, 14, 15, 16, 17, 32, 64]
    n_runs = 0
    dist = {}
    for k in pools:
        for rep in range(1 if ctx.tier == "quick" else 2):
            out = run_bin(ctx.harness_bin(), lines, {"RAYON_NUM_THREADS": str(k)})
            n_runs += len(out)
            dist["pool=%d" % k] = dist.get("pool=%d" % k, 0) + len(out)
            for l, a, b in zip(lines, ref, out):
                if a != b or not a.startswith("proof="):
                    ctx.violation("impl:pool-size-%d" % k, {"kind": "implementation-vs-property",
                                  "why": "the prover's output depends on the rayon pool size (or proving failed)",
                                  "request": l[:400], "outputs": {"threads=1": a[:300], "threads=%d" % k: b[:300]}})
                    break
    # (3) std vs alloc-only build
    if os.path.exists(ALLOC_BIN):
        out = run_bin(ALLOC_BIN, lines[: (2 if ctx.tier == "quick" else 4)])
        dist["alloc-only"] = len(out)
        for l, a, b in zip(lines, ref, out):
            if a.split(" calls=")[0] != b.split(" calls=")[0]:
                ctx.violation("impl:std-vs-alloc", {"kind": "implementation-vs-property", "why": "std and alloc-only builds produce different bytes",
                                                    "request": l[:400], "outputs": {"std": a[:300], "alloc": b[:300]}})
                break
    else:
        ctx.violation("alloc-harness-missing", {"why": "harness-alloc was not built (setup)"}, no_input=True)
    # (4) concurrent calls on shared keys
    conc = []
    for t in ([4, 16] if ctx.tier == "quick" else [2, 4, 8, 16]):
        draws = [draw_hex(rng) for _ in range(14)]
        conc.append("concprove %d 64 %s %s %s || %s" % (t, srs, b"c18".hex(), ",".join(draws), simple_program(rng, 40)))
    outs = run_bin(ctx.harness_bin(), conc)
    for l, o in zip(conc, outs):
        dist["concurrent"] = dist.get("concurrent", 0) + 1
        if not o.startswith("conc=ok"):
            ctx.violation("impl:concurrent-calls", {"kind": "implementation-vs-property", "why": "concurrent prove/verify on shared keys "
                          "returned something else than the sequential calls", "request": l[:400], "impl_output": o[:300]})
            break
    # (5) process history: the proof for a label must not depend on which OTHER labels the process used before (labels that
    #     share a long prefix, differ only by trailing NUL bytes, or are prefixes of each other; process-global caches)
    pre = b"zz-verif/dusk-network/transfer-circuit/v3/"          # 42 bytes: longer than any fixed-size cache key prefix
    labels = [pre + b"send-to-contract", pre + b"withdraw-from-contract", pre[:32], pre[:32] + b"\x00", pre[:33], pre[:31],
              pre + b"send-to-contract\x00", b"", b"\x00"]
    hdraws = [draw_hex(rng) for _ in range(14)]
    hprog = simple_program(rng, 12)
    hlines = [prove_line(srs, 32, lb, hdraws, 3, hprog) for lb in labels]
    alone = [run_bin(ctx.harness_bin(), [l])[0] for l in hlines]
    seqs = [list(range(len(labels))), list(reversed(range(len(labels))))]
    if ctx.tier != "quick":
        seqs += [[(i * 4 + 3) % len(labels) for i in range(len(labels))], [1, 0, 3, 2, 5, 4, 7, 6, 8]]
    n_hist = 0
    for sq in seqs:
        outs_h = run_bin(ctx.harness_bin(), [hlines[i] for i in sq])
        for pos, (i, o) in enumerate(zip(sq, outs_h)):
            n_hist += 1
            if o != alone[i] or not o.startswith("proof="):
                ctx.violation("impl:process-history", {"kind": "implementation-vs-property", "why": "the proof (or keys) for a label depends on "
                              "the labels the same process used before: not a function of circuit, label, parameters and RNG bytes",
                              "label_hex": labels[i].hex(), "labels_used_before": [labels[j].hex() for j in sq[:pos]],
                              "request": hlines[i][:400], "outputs": {"fresh-process": alone[i][:300], "after-other-labels": o[:300]}})
                break
    dist["process-history"] = n_hist
    if len(set(alone)) != len(alone):
        ctx.violation("impl:labels-collide", {"kind": "implementation-vs-property", "why": "two different labels give byte-identical "
                      "keys and proofs", "labels": [l.hex() for l in labels]})
    st = r.report()
    st["evaluations"] += n_runs + len(conc) + n_hist
    st["schedule_distribution"] = dist
    st["rule"] = ("circuits of ~%s gates (domains on both sides of the 2^12 FFT switch): real prover bytes == Lean specification prover "
                  "(sequential) for the sizes up to 700 gates; bytes under RAYON_NUM_THREADS in %s (fresh process each, so fresh hash seeds) "
                  "== the 1-thread reference; std build == alloc-only build (separate crate harness-alloc); %d-thread concurrent "
                  "prove+verify on shared keys == sequential; process history: %d labels sharing a 42-byte prefix / differing by trailing NULs / prefixes of each other proved in one process in several orders == each proved alone in a fresh process." % (sizes, pools, 16, 9))
    return st
