"""C17 — checked decoders are total, bounded and admit only well-formed data."""
import subprocess, zlib
from plib import *
from props.common import LineRunner, hash_list
from props.pcommon import *

LEAN_TARGETS = ["Plonk.Props.C17"]
PROFILE = "checked"          # debug assertions + overflow checks, as in the project's own test profile
ASSUMPTIONS = ["hangs and real peak memory are observed on the implementation, not proved; the model decoders are total by "
               "construction (structural recursion)",
               "the optional rkyv archive validators are not built by the baseline configuration and are out of scope"]
THEOREMS_NOTE = "Plonk/Props/C17.lean"

P_MOD = 0x1a0111ea397fe69a4b1ba7b6434bacd764774b84f38512bf6730d2a0f6b0f6241eabfffeb153ffffb9feffffffffaaab
U64S = [0, 1, 2, 1 << 32, (1 << 32) + 1, 1 << 63, (1 << 64) - 1, (1 << 64) - 8]


def mutations(rng, kind, b, n_flips, hdr_fields, hdr_be=True):
    """structure-aware mutants of a valid encoding `b` (bytes)"""
    out = []
    for _ in range(n_flips):
        m = bytearray(b); i = rng.below(len(m) * 8); m[i // 8] ^= 1 << (i % 8)
        out.append(("bitflip", bytes(m)))
    for f in range(hdr_fields):
        old = int.from_bytes(b[8 * f:8 * f + 8], "big" if hdr_be else "little")
        for v in U64S + [old + 1, max(old - 1, 0), old + 8]:
            m = bytearray(b); m[8 * f:8 * f + 8] = (v % (1 << 64)).to_bytes(8, "big" if hdr_be else "little")
            out.append(("length-field-%d" % f, bytes(m)))
    for cut in (0, 1, 7, 47, 48, len(b) // 2, len(b) - 1):
        out.append(("truncated", b[:cut]))
    out.append(("extended", b + b"\x00"))
    out.append(("extended", b + bytes(rng.below(256) for _ in range(40))))
    # splice: middle third replaced by the first third
    t = len(b) // 3
    out.append(("splice", b[:t] + b[:t] + b[2 * t:]))
    # 32-byte windows set to 0xff (scalars >= r) and 48-byte windows to 0xff (field elements >= p)
    for _ in range(6):
        m = bytearray(b); i = rng.below(max(1, len(m) - 48)); m[i:i + 32] = b"\xff" * 32
        out.append(("ff-window-32", bytes(m)))
        m = bytearray(b); i = rng.below(max(1, len(m) - 48)); m[i:i + 48] = b"\x00" * 48
        out.append(("zero-window-48", bytes(m)))
    return out


def run(ctx, broken):
    rng = SplitMix(ctx.seed * 1000003 + 17)
    r = LineRunner(ctx, "C17")
    srs = srs_draws(rng)
    x = int.from_bytes(bytes.fromhex(srs.split(" ")[0]), "little") % R
    src = "pub 5;w 1;bool $1"
    p = subprocess.run([ctx.harness_bin(), "encodings"], input="16 %s %s || %s\n" % (srs, b"c17".hex(), src), stdout=subprocess.PIPE, text=True)
    enc = {l.split(" ")[0]: l.split(" ")[1:] for l in p.stdout.split("\n") if l}
    nf = 60 if ctx.tier == "quick" else 1500
    cs = []
    draws = [draw_hex(rng) for _ in range(14)]

    def add(cmd, kind, tag, b, extra=""):
        bound = 64 * max(len(b), 64) + (1 << 20)
        cs.append({"line": "%s %s%s" % (cmd, b.hex() or "-", extra), "tags": [kind + ":" + tag], "peak_bound": bound, "panic_ok": False})

    prover = bytes.fromhex(enc["prover"][0])
    for tag, m in mutations(rng, "prover", prover, nf, 6):
        add("proverdec", "prover", tag, m)
    # targeted: inner ProverKey header (n, evaluation size) and the raw commit key
    off_pk = 48 + 3
    for v in U64S + [8, 4, 16, 9]:
        m = bytearray(prover); m[off_pk:off_pk + 8] = v.to_bytes(8, "little"); add("proverdec", "prover", "proverkey-n", bytes(m))
        m = bytearray(prover); m[off_pk + 8:off_pk + 16] = v.to_bytes(8, "little"); add("proverdec", "prover", "proverkey-evalsize", bytes(m))
    pk_len = int.from_bytes(prover[8:16], "big")
    off_ck = 48 + 3 + pk_len
    for flag in (1, 2, 3, 255):
        m = bytearray(prover); m[off_ck + 8 + 96] = flag; add("proverdec", "prover", "raw-point-flag-%d" % flag, bytes(m))
    m = bytearray(prover); m[off_ck + 8:off_ck + 8 + 48] = b"\xff" * 48; add("proverdec", "prover", "raw-point-limbs-ff", bytes(m))
    m = bytearray(prover); m[off_ck + 8:off_ck + 8 + 48] = P_MOD.to_bytes(48, "little"); add("proverdec", "prover", "raw-point-limbs-p", bytes(m))
    m = bytearray(prover); m[off_ck + 8:off_ck + 8 + 96] = b"\xff" * 96; m[off_ck + 8 + 96] = 1; add("proverdec", "prover", "raw-identity-garbage", bytes(m))
    m = bytearray(prover); m[off_ck:off_ck + 8] = (0).to_bytes(8, "little"); add("proverdec", "prover", "commit-key-len-0", bytes(m))
    verifier = bytes.fromhex(enc["verifier"][0])
    for tag, m in mutations(rng, "verifier", verifier, nf, 6):
        add("vroundtrip", "verifier", tag, m)
    proof = bytes.fromhex(enc["proof"][0])
    for tag, m in mutations(rng, "proof", proof, nf, 0):
        add("proofdec", "proof", tag, m)
    pp = bytes.fromhex(enc["pp"][0])
    for tag, m in mutations(rng, "pp", pp, nf // 2, 0) + [("truncated", pp[:c]) for c in (240, 241, 287, 288, 289, 240 + 48 * 3 + 1, len(pp) - 47)]:
        add("ppdec", "public-parameters", tag, m)
        # property level: an encoding that is not "opening key + whole 48-byte points (at least one)" is not well formed
        if len(m) <= 240 or (len(m) - 240) % 48 != 0:
            cs[-1]["expect_prefix"] = "err"
    # identity where an opening key forbids it
    ident = bytes([0xc0]) + b"\x00" * 47
    m = bytearray(pp); m[0:48] = ident; add("ppdec", "public-parameters", "opening-key-g-identity", bytes(m))
    m = bytearray(pp); m[48:144] = bytes([0xc0]) + b"\x00" * 95; add("ppdec", "public-parameters", "opening-key-h-identity", bytes(m))
    ck = bytes.fromhex(enc["ppraw"][0])[240:]
    for tag, m in mutations(rng, "ckraw", ck, nf // 2, 1, hdr_be=False):
        add("ckraw", "commit-key-raw", tag, m)
    for flag in (1, 2, 3, 255):
        m = bytearray(ck); m[8 + 96] = flag; add("ckraw", "commit-key-raw", "flag-%d" % flag, bytes(m))
    # accepted provers must be usable
    accepted_use = []
    for c in list(cs):
        if c["line"].startswith("proverdec ") and c["tags"][0] in ("prover:bitflip", "prover:extended"):
            hx_ = c["line"].split(" ")[1]
            accepted_use.append({"line": "proveruse %x %s %s || %s" % (x, hx_, ",".join(draws), src), "tags": ["use-mutated-prover"],
                                 "peak_bound": None})
    r.run(cs)
    r.run(accepted_use[: (40 if ctx.tier == "quick" else 400)])
    # compressed circuits: the MessagePack payload decoder vs the Lean model's from_bytes on structure-aware variants
    from props import packed
    cprogs = ["pub 5;w 7;gadd 0 1 1 0 3 - $0 $1 #0;pub 9;bool #1", "w 2d;rangebits 7 $0;w 33;pub 0",
              "w 1;w 2;gate 1 2 3 4 5 6 - $0 $1 $0 $1;gate 0 9 0 0 0 0 7 $1 #0 #0 #0"]
    if ctx.tier != "quick":
        cprogs += ["w 2d;w 33;xor 2 $0 $1;pub 0", "pub 0;pub 1;pub 2;w 5;bool #1"]
    npk, dpk = packed.run_packed(ctx, "C17", cprogs, rng, "checked", ctx.tier != "quick")
    st = r.report()
    st["evaluations"] += npk
    st["packed_payload_cases"] = npk
    st["packed_payload_distribution"] = dpk
    st["rule"] = ("compressed circuits: structure-aware variants of the MessagePack payload (index boundaries, capacities, declared "
                  "lengths, non-minimal encodings, trailing / truncated data, non-canonical scalars) decoded by the real from_bytes and "
                  "by the Lean model's from_bytes (same outcome, same reconstructed composer), never a panic, bounded peak allocation; "
                  "structure-aware mutants of valid encodings of a prover (6 header fields, inner key header, raw commit-key points: "
                  "flag bytes 1/2/3/255, limbs 0xff.., limbs = p, garbage identity, empty key), a verifier, a proof, public "
                  "parameters (identity opening-key points) and a raw commit key: bit flips, length fields set to 0/1/2/2^32/2^63/"
                  "u64::MAX/len+-1, truncation, extension, splices, 0xff / zero windows; debug-assertions + overflow-checks build. "
                  "Outcome class and error kind vs the Lean model decoders; never a panic; peak allocation below 64*len+1MiB; "
                  "provers accepted after mutation are used to prove (no panic, same result as the model).")
    return st
