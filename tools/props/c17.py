"""C17 — checked decoders are total, bounded and admit only well-formed data."""
import subprocess, zlib
from plib import *
from props.common import LineRunner, hash_list
from props.pcommon import *

LEAN_TARGETS = ["Plonk.Props.C17", "Plonk.Props.C15Packed"]
EXTRA_AUDITS = ["C15Packed"]
PROFILE = "checked"          # debug assertions + overflow checks, as in the project's own test profile
ASSUMPTIONS = ["hangs and real peak memory are observed on the implementation, not proved; the model decoders are total by "
               "construction (structural recursion)",
               "the optional rkyv archive validators are not built by the baseline configuration and are out of scope"]
THEOREMS_NOTE = "Plonk/Props/C17.lean"

P_MOD = 0x1a0111ea397fe69a4b1ba7b6434bacd764774b84f38512bf6730d2a0f6b0f6241eabfffeb153ffffb9feffffffffaaab
U64S = [0, 1, 2, 1 << 32, (1 << 32) + 1, 1 << 63, (1 << 64) - 1, (1 << 64) - 8]


def g1_bad_points():
    """compressed G1 encodings that a checked decoder must reject: on-curve points OUTSIDE the prime-order subgroup (x = 0,
    small x with x^3+4 a square; such a point lies in the subgroup with probability 2^-126), an x with no y, x >= p,
    infinity flag with a non-zero x, missing compression flag, infinity flag together with the sign flag"""
    out = []
    found = 0
    x = 0
    while found < 3:
        rhs = (x * x * x + 4) % P_MOD
        y = pow(rhs, (P_MOD + 1) // 4, P_MOD)
        if y * y % P_MOD == rhs:
            b = bytearray(x.to_bytes(48, "big")); b[0] |= 0x80
            out.append(("non-subgroup-x=%d" % x, bytes(b)))
            b2 = bytearray(b); b2[0] |= 0x20
            out.append(("non-subgroup-x=%d-other-sign" % x, bytes(b2)))
            found += 1
        elif not any(n.startswith("off-curve") for n, _ in out):
            b = bytearray(x.to_bytes(48, "big")); b[0] |= 0x80
            out.append(("off-curve-x=%d" % x, bytes(b)))
        x += 1
    b = bytearray(P_MOD.to_bytes(48, "big")); b[0] |= 0x80; out.append(("x=p", bytes(b)))
    b = bytearray(b"\xff" * 48); b[0] = 0x9f; out.append(("x=2^381-1", bytes(b)))
    b = bytearray((5).to_bytes(48, "big")); b[0] |= 0xc0; out.append(("infinity-flag-nonzero-x", bytes(b)))
    b = bytearray((0).to_bytes(48, "big")); b[0] |= 0xe0; out.append(("infinity-with-sign-flag", bytes(b)))
    b = bytearray((0).to_bytes(48, "big")); out.append(("no-compression-flag", bytes(b)))
    return out


def fp2_sqrt(a0, a1):
    """square root in F_p[u]/(u^2+1), or None"""
    p = P_MOD
    if a1 == 0:
        r = pow(a0, (p + 1) // 4, p)
        if r * r % p == a0:
            return (r, 0)
        r = pow((-a0) % p, (p + 1) // 4, p)
        return (0, r) if r * r % p == (-a0) % p else None
    n = (a0 * a0 + a1 * a1) % p
    sn = pow(n, (p + 1) // 4, p)
    if sn * sn % p != n:
        return None
    for s_ in (sn, (-sn) % p):
        t = (a0 + s_) * pow(2, p - 2, p) % p
        x0 = pow(t, (p + 1) // 4, p)
        if x0 * x0 % p == t and x0 != 0:
            x1 = a1 * pow(2 * x0 % p, p - 2, p) % p
            return (x0, x1)
    return None


def g2_bad_points():
    """compressed G2 encodings (x.c1 || x.c0, big endian, flags in the first byte) a checked decoder must reject"""
    out = []
    found = 0
    k = 0
    while found < 2 and k < 50:
        x0, x1 = k, 0
        # y^2 = x^3 + 4(1+u)
        x2 = ((x0 * x0 - x1 * x1) % P_MOD, 2 * x0 * x1 % P_MOD)
        x3 = ((x2[0] * x0 - x2[1] * x1) % P_MOD, (x2[0] * x1 + x2[1] * x0) % P_MOD)
        rhs = ((x3[0] + 4) % P_MOD, (x3[1] + 4) % P_MOD)
        if fp2_sqrt(*rhs) is not None:
            b = bytearray(x1.to_bytes(48, "big") + x0.to_bytes(48, "big")); b[0] |= 0x80
            out.append(("g2-non-subgroup-x=%d" % k, bytes(b)))
            found += 1
        elif not any(n.startswith("g2-off-curve") for n, _ in out):
            b = bytearray(x1.to_bytes(48, "big") + x0.to_bytes(48, "big")); b[0] |= 0x80
            out.append(("g2-off-curve-x=%d" % k, bytes(b)))
        k += 1
    b = bytearray(P_MOD.to_bytes(48, "big") + (1).to_bytes(48, "big")); b[0] |= 0x80; out.append(("g2-x.c1=p", bytes(b)))
    b = bytearray((0).to_bytes(48, "big") + P_MOD.to_bytes(48, "big")); b[0] |= 0x80; out.append(("g2-x.c0=p", bytes(b)))
    b = bytearray((0).to_bytes(96, "big")); b[0] |= 0xc0; b[95] = 1; out.append(("g2-infinity-flag-nonzero-x", bytes(b)))
    b = bytearray((0).to_bytes(96, "big")); b[0] |= 0xc0; out.append(("g2-identity", bytes(b)))
    return out


BAD_SCALARS = [("scalar=r", R.to_bytes(32, "little")), ("scalar=r+1", (R + 1).to_bytes(32, "little")),
               ("scalar=2^256-1", b"\xff" * 32), ("scalar=2^255", (1 << 255).to_bytes(32, "little"))]


def slot_injections(b, g1_slots, g2_slots=(), scalar_slots=()):
    """every ill-formed element in EVERY slot of a structure: (tag, bytes)"""
    out = []
    for name, off in g1_slots:
        for tag, enc in g1_bad_points():
            m = bytearray(b); m[off:off + 48] = enc; out.append(("slot-%s-%s" % (name, tag), bytes(m)))
    for name, off in g2_slots:
        for tag, enc in g2_bad_points():
            m = bytearray(b); m[off:off + 96] = enc; out.append(("slot-%s-%s" % (name, tag), bytes(m)))
    for name, off in scalar_slots:
        for tag, enc in BAD_SCALARS:
            m = bytearray(b); m[off:off + 32] = enc; out.append(("slot-%s-%s" % (name, tag), bytes(m)))
    return out


def mutations(rng, kind, b, n_flips, hdr_fields, hdr_be=True):
    """structure-aware mutants of a valid encoding `b` (bytes)"""
    out = []
    for _ in range(n_flips):
        m = bytearray(b); i = rng.below(len(m) * 8); m[i // 8] ^= 1 << (i % 8)
        out.append(("bitflip", bytes(m)))
    for f in range(hdr_fields):
        old = int.from_bytes(b[8 * f:8 * f + 8], "big" if hdr_be else "little")
        for v in U64S + [old + 1, max(old - 1, 0), old + 8]:
            m = bytearray(b); m[8 * f:8 * f + 8] = (v % (1 << 64)).to_bytes(8, "big" if hdr_be else "little")
            out.append(("length-field-%d" % f, bytes(m)))
    for cut in (0, 1, 7, 47, 48, len(b) // 2, len(b) - 1):
        out.append(("truncated", b[:cut]))
    out.append(("extended", b + b"\x00"))
    out.append(("extended", b + bytes(rng.below(256) for _ in range(40))))
    # splice: middle third replaced by the first third
    t = len(b) // 3
    out.append(("splice", b[:t] + b[:t] + b[2 * t:]))
    # 32-byte windows set to 0xff (scalars >= r) and 48-byte windows to 0xff (field elements >= p)
    for _ in range(6):
        m = bytearray(b); i = rng.below(max(1, len(m) - 48)); m[i:i + 32] = b"\xff" * 32
        out.append(("ff-window-32", bytes(m)))
        m = bytearray(b); i = rng.below(max(1, len(m) - 48)); m[i:i + 48] = b"\x00" * 48
        out.append(("zero-window-48", bytes(m)))
    return out


def run(ctx, broken):
    rng = SplitMix(ctx.seed * 1000003 + 17)
    r = LineRunner(ctx, "C17")
    srs = srs_draws(rng)
    x = int.from_bytes(bytes.fromhex(srs.split(" ")[0]), "little") % R
    src = "pub 5;w 1;bool $1"
    p = subprocess.run([ctx.harness_bin(), "encodings"], input="16 %s %s || %s\n" % (srs, b"c17".hex(), src), stdout=subprocess.PIPE, text=True)
    enc = {l.split(" ")[0]: l.split(" ")[1:] for l in p.stdout.split("\n") if l}
    nf = 60 if ctx.tier == "quick" else 1500
    cs = []
    draws = [draw_hex(rng) for _ in range(14)]

    def add(cmd, kind, tag, b, extra=""):
        bound = 64 * max(len(b), 64) + (1 << 20)
        cs.append({"line": "%s %s%s" % (cmd, b.hex() or "-", extra), "tags": [kind + ":" + tag], "peak_bound": bound, "panic_ok": False})

    prover = bytes.fromhex(enc["prover"][0])
    for tag, m in mutations(rng, "prover", prover, nf, 6):
        add("proverdec", "prover", tag, m)
    # targeted: inner ProverKey header (n, evaluation size) and the raw commit key
    off_pk = 48 + 3
    for v in U64S + [8, 4, 16, 9]:
        m = bytearray(prover); m[off_pk:off_pk + 8] = v.to_bytes(8, "little"); add("proverdec", "prover", "proverkey-n", bytes(m))
        m = bytearray(prover); m[off_pk + 8:off_pk + 16] = v.to_bytes(8, "little"); add("proverdec", "prover", "proverkey-evalsize", bytes(m))
    pk_len = int.from_bytes(prover[8:16], "big")
    off_ck = 48 + 3 + pk_len
    for flag in (1, 2, 3, 255):
        m = bytearray(prover); m[off_ck + 8 + 96] = flag; add("proverdec", "prover", "raw-point-flag-%d" % flag, bytes(m))
    m = bytearray(prover); m[off_ck + 8:off_ck + 8 + 48] = b"\xff" * 48; add("proverdec", "prover", "raw-point-limbs-ff", bytes(m))
    m = bytearray(prover); m[off_ck + 8:off_ck + 8 + 48] = P_MOD.to_bytes(48, "little"); add("proverdec", "prover", "raw-point-limbs-p", bytes(m))
    m = bytearray(prover); m[off_ck + 8:off_ck + 8 + 96] = b"\xff" * 96; m[off_ck + 8 + 96] = 1; add("proverdec", "prover", "raw-identity-garbage", bytes(m))
    m = bytearray(prover); m[off_ck:off_ck + 8] = (0).to_bytes(8, "little"); add("proverdec", "prover", "commit-key-len-0", bytes(m))
    # embedded EvaluationDomain headers (one in front of every evaluation vector of the prover key): replaced by the CANONICAL
    # header of a much larger domain whose evaluations are not there — a decoder that sizes a buffer from the header before
    # checking the remaining length allocates 32 * 2^k bytes for a few hundred bytes of input
    def domain_header(k):
        n = 1 << k
        w = pow(7, (R - 1) >> k, R) if k else 1
        le32 = lambda v: (v % R).to_bytes(32, "little")
        return n.to_bytes(8, "little") + k.to_bytes(4, "little") + le32(n) + le32(inv(n)) + le32(w) + le32(inv(w)) + le32(inv(7))
    found = 0
    for k0 in range(1, 16):
        h0 = domain_header(k0)
        pos = prover.find(h0)
        occ = []
        while pos != -1:
            occ.append(pos); pos = prover.find(h0, pos + 1)
        if not occ:
            continue
        found += len(occ)
        for pos in [occ[0], occ[len(occ) // 2], occ[-1]]:
            for k1 in (20, 24, 27, 31):
                m = bytearray(prover); m[pos:pos + len(h0)] = domain_header(k1)
                add("proverdec", "prover", "embedded-domain-header-2^%d" % k1, bytes(m)); cs[-1]["expect_prefix"] = "err"
                # the same with everything after the header cut off (a ~250 byte input)
                add("proverdec", "prover", "embedded-domain-header-2^%d-truncated" % k1, bytes(m[:pos + len(h0)])); cs[-1]["expect_prefix"] = "err"
    if not found:
        ctx.violation("machinery:domain-header-not-found", {"why": "no canonical evaluation-domain header found in the prover bytes"}, no_input=True)
    # a hand-made blob: just a canonical header of a huge domain, as an evaluation vector on its own
    for k1 in (20, 27, 31):
        add("evalsdec", "evaluations", "lone-domain-header-2^%d" % k1, domain_header(k1)); cs[-1]["expect_prefix"] = "err"
    # the verifier key carried inside the prover: every ill-formed commitment in every slot
    p_lab, p_pk, p_ck = (int.from_bytes(prover[8 * i:8 * i + 8], "big") for i in range(3))
    p_vk = 48 + p_lab + p_pk + p_ck
    for tag, m in slot_injections(prover, [("prover-vk-commitment-%d" % i, p_vk + 8 + 48 * i) for i in (0, 7, 14)]):
        add("proverdec", "prover", tag, m); cs[-1]["expect_prefix"] = "err"
    verifier = bytes.fromhex(enc["verifier"][0])
    for tag, m in mutations(rng, "verifier", verifier, nf, 6):
        add("vroundtrip", "verifier", tag, m)
    proof = bytes.fromhex(enc["proof"][0])
    for tag, m in mutations(rng, "proof", proof, nf, 0):
        add("proofdec", "proof", tag, m)
    # every ill-formed group element / scalar in EVERY slot: the decoder must reject each of them (property level)
    PROOF_G1 = ["a_comm", "b_comm", "c_comm", "d_comm", "z_comm", "t_low", "t_mid", "t_high", "t_fourth", "w_z", "w_zw"]
    PROOF_SC = ["a", "b", "c", "d", "a_w", "b_w", "d_w", "q_arith", "q_c", "q_l", "q_r", "s1", "s2", "s3", "z"]
    for tag, m in slot_injections(proof, [(n_, 48 * i) for i, n_ in enumerate(PROOF_G1)],
                                  scalar_slots=[(n_, 528 + 32 * i) for i, n_ in enumerate(PROOF_SC)]):
        add("proofdec", "proof", tag, m); cs[-1]["expect_prefix"] = "err"
    lab_len = int.from_bytes(verifier[0:8], "big"); vk_len = int.from_bytes(verifier[8:16], "big")
    vk_off = 48 + lab_len; ok_off = vk_off + vk_len
    VK_G1 = ["q_m", "q_l", "q_r", "q_o", "q_f", "q_c", "q_arith", "q_range", "q_logic", "q_fixed", "q_var", "s1", "s2", "s3", "s4"]
    for tag, m in slot_injections(verifier, [("vk-commitment-%d" % i, vk_off + 8 + 48 * i) for i in range(15)] + [("opening-g", ok_off)],
                                  g2_slots=[("opening-h", ok_off + 48), ("opening-x_h", ok_off + 144)]):
        add("vroundtrip", "verifier", tag, m); cs[-1]["expect_prefix"] = "err"
    m = bytearray(verifier); m[ok_off:ok_off + 48] = bytes([0xc0]) + b"\x00" * 47
    add("vroundtrip", "verifier", "slot-opening-g-identity", bytes(m)); cs[-1]["expect_prefix"] = "err"
    pp = bytes.fromhex(enc["pp"][0])
    npts = (len(pp) - 240) // 48
    for tag, m in slot_injections(pp, [("opening-g", 0)] + [("commit-key-%d" % i, 240 + 48 * i) for i in sorted(set([0, 1, npts // 2, npts - 1]))],
                                  g2_slots=[("opening-h", 48), ("opening-x_h", 144)]):
        add("ppdec", "public-parameters", tag, m); cs[-1]["expect_prefix"] = "err"
    for tag, m in mutations(rng, "pp", pp, nf // 2, 0) + [("truncated", pp[:c]) for c in (240, 241, 287, 288, 289, 240 + 48 * 3 + 1, len(pp) - 47)]:
        add("ppdec", "public-parameters", tag, m)
        # property level: an encoding that is not "opening key + whole 48-byte points (at least one)" is not well formed
        if len(m) <= 240 or (len(m) - 240) % 48 != 0:
            cs[-1]["expect_prefix"] = "err"
    # identity where an opening key forbids it
    ident = bytes([0xc0]) + b"\x00" * 47
    m = bytearray(pp); m[0:48] = ident; add("ppdec", "public-parameters", "opening-key-g-identity", bytes(m))
    m = bytearray(pp); m[48:144] = bytes([0xc0]) + b"\x00" * 95; add("ppdec", "public-parameters", "opening-key-h-identity", bytes(m))
    ck = bytes.fromhex(enc["ppraw"][0])[240:]
    for tag, m in mutations(rng, "ckraw", ck, nf // 2, 1, hdr_be=False):
        add("ckraw", "commit-key-raw", tag, m)
    for flag in (1, 2, 3, 255):
        m = bytearray(ck); m[8 + 96] = flag; add("ckraw", "commit-key-raw", "flag-%d" % flag, bytes(m))
    # accepted provers must be usable
    accepted_use = []
    for c in list(cs):
        if c["line"].startswith("proverdec ") and c["tags"][0] in ("prover:bitflip", "prover:extended"):
            hx_ = c["line"].split(" ")[1]
            accepted_use.append({"line": "proveruse %x %s %s || %s" % (x, hx_, ",".join(draws), src), "tags": ["use-mutated-prover"],
                                 "peak_bound": None})
    r.run(cs)
    r.run(accepted_use[: (40 if ctx.tier == "quick" else 400)])
    # compressed circuits: the MessagePack payload decoder vs the Lean model's from_bytes on structure-aware variants
    from props import packed
    cprogs = ["pub 5;w 7;gadd 0 1 1 0 3 - $0 $1 #0;pub 9;bool #1", "w 2d;rangebits 7 $0;w 33;pub 0",
              "w 1;w 2;gate 1 2 3 4 5 6 - $0 $1 $0 $1;gate 0 9 0 0 0 0 7 $1 #0 #0 #0"]
    if ctx.tier != "quick":
        cprogs += ["w 2d;w 33;xor 2 $0 $1;pub 0", "pub 0;pub 1;pub 2;w 5;bool #1"]
    npk, dpk = packed.run_packed(ctx, "C17", cprogs, rng, "checked", ctx.tier != "quick")
    st = r.report()
    st["evaluations"] += npk
    st["packed_payload_cases"] = npk
    st["packed_payload_distribution"] = dpk
    st["rule"] = ("compressed circuits: structure-aware variants of the MessagePack payload (index boundaries, capacities, declared "
                  "lengths, non-minimal encodings, trailing / truncated data, non-canonical scalars) decoded by the real from_bytes and "
                  "by the Lean model's from_bytes (same outcome, same reconstructed composer), never a panic, bounded peak allocation; "
                  "structure-aware mutants of valid encodings of a prover (6 header fields, inner key header, raw commit-key points: "
                  "flag bytes 1/2/3/255, limbs 0xff.., limbs = p, garbage identity, empty key), a verifier, a proof, public "
                  "parameters (identity opening-key points) and a raw commit key: bit flips, length fields set to 0/1/2/2^32/2^63/"
                  "u64::MAX/len+-1, truncation, extension, splices, 0xff / zero windows; debug-assertions + overflow-checks build. "
                  "EVERY slot of a proof (11 commitments, 15 scalars), of a verifier (15 key commitments, opening key g, h, x_h), of public parameters and of the verifier key inside a prover receives every kind of ill-formed element (on-curve points outside the subgroup, off-curve x, x >= p, bad flag combinations, identity where forbidden, scalars >= r): all must be rejected. Outcome class and error kind vs the Lean model decoders; never a panic; peak allocation below 64*len+1MiB; "
                  "provers accepted after mutation are used to prove (no panic, same result as the model).")
    return st
