"""C14 — fixed-base multiplication returns [s]G for canonical s only."""
from plib import *
from props.builder import PProg
from props.common import ProgRunner

EXTRA_AUDITS = ["WidgetTie"]
LEAN_TARGETS = ["Plonk.Props.C14", "Plonk.Props.WidgetTie"]
ASSUMPTIONS = ["JubJub group structure as an explicit hypothesis of 'output = [s]G'",
               "prover success coincides with 'every row identity holds' outside explicit bad-challenge sets"]
TRUSTED = ["dusk-jubjub arithmetic and JubJubScalar::compute_windowed_naf (modelled and compared)"]
THEOREMS_NOTE = "Plonk/Props/C14.lean"


def scalars(rng):
    return [0, 1, 2, RJ - 1, RJ, RJ + 1, (1 << 252) - 1, 1 << 252, rng.fe() % RJ, rng.fe() % RJ, R - 1, rng.fe()]


def binary_digits(v):
    return [(v >> i) & 1 for i in range(256)]


def signed(v):
    """256 signed digits for a (possibly negative) integer with |v| < 2^255: binary of |v| with sign"""
    s = -1 if v < 0 else 1
    return [s * ((abs(v) >> i) & 1) for i in range(256)]


def mulgen_case(rng, i):
    p = PProg(); p.tags = ["component_mul_generator"]
    G = GEN if i % 2 == 0 else random_subgroup_point(rng)
    if G == (0, 1):
        G = GEN
    s = p.w(scalars(rng)[i % 12])
    o, e = p.mulgen(s, ext_of(G, z=rng.choice([1, 1, 5])))
    p.tags.append("canonical-scalar" if p.val(s) < RJ else "non-canonical-scalar")
    c = p.case()
    c["cmd"] = "prog" if e == 0 else "shape"
    return c


def digits_case(rng, i):
    p = PProg(); p.tags = ["signed-digit-seam"]
    G = GEN if rng.coin() else random_subgroup_point(rng)
    k = i % 9
    sv = rng.fe() % RJ if k not in (6,) else rng.choice([RJ, RJ + 5, (1 << 252) - 1])
    if k == 0:
        ds = wnaf2(sv); p.tags.append("honest-naf")
    elif k == 1:
        ds = binary_digits(sv); p.tags.append("binary-digits")
    elif k == 2:
        ds = binary_digits((sv + R) % (1 << 256)); p.tags.append("digits-of-s+r")
    elif k == 3:
        ds = signed(sv - R); p.tags.append("digits-of-s-r")
    elif k == 4:
        ds = binary_digits(sv + RJ); p.tags.append("digits-of-s+rJ")
    elif k == 5:
        ds = wnaf2(sv); j = rng.below(250); ds[j] = 2; p.tags.append("digit-2")
    elif k == 6:
        ds = wnaf2(sv % RJ) if sv < RJ else binary_digits(sv); p.tags.append("non-canonical-scalar-witness")
    elif k == 7:
        # non-zero leading digits that cancel: 2^255 - 2^254 - 2^253 - ... keeps the integer value
        ds = wnaf2(sv); ds[255] = 1; ds[254] = -1; ds[253] = -1
        # compensate 2^253 by the lower digits if possible: leave as is (value changes) — still a leading-zero violation
        p.tags.append("nonzero-leading-digits")
    else:
        ds = wnaf2(sv); j = rng.below(200); ds[j] = ds[j] + 1 if ds[j] < 1 else ds[j] - 1; p.tags.append("one-digit-off")
    s = p.w(sv)
    o, e = p.fbdigits(s, G, ds)
    return p.case()


def history_case(rng, i):
    """the scalar witness has ALREADY been through other components (a range check of 251 / 252 / 254 bits, a decomposition, an
    earlier multiplication) before the multiplication under test — a composer that remembers what it checked must not skip
    the canonical-scalar check on the strength of a weaker earlier one. Scalar witness s + r_J < 2^252 (or r_J, 2^252 - 1)
    with the binary digits of that integer: only the canonical-scalar check rejects it."""
    p = PProg(); p.tags = ["signed-digit-seam", "scalar-with-history"]
    G = GEN if rng.coin() else random_subgroup_point(rng)
    sv = rng.choice([RJ, RJ + 5, RJ + rng.below(1 << 200), (1 << 252) - 1])
    s = p.w(sv)
    k = i % 6
    if k == 0: p.rangebits(252, s); p.tags.append("after-rangebits-252")
    elif k == 1: p.rangebits(254, s); p.tags.append("after-rangebits-254")
    elif k == 2: p.rangepairs(126, s); p.tags.append("after-range-126-pairs")
    elif k == 3: p.decomp(252, s); p.tags.append("after-decomposition-252")
    elif k == 4: p.rangebits(252, s); p.rangebits(253, s); p.tags.append("after-two-range-checks")
    else:
        s0 = p.w(5); p.mulgen(s0, ext_of(G)); p.rangebits(252, s); p.tags.append("after-another-multiplication")
    p.fbdigits(s, G, binary_digits(sv))
    return p.case()


def run(ctx, broken):
    rng = SplitMix(ctx.seed * 1000003 + 14)
    r = ProgRunner(ctx, "C14")
    n1 = 24 if ctx.tier == "quick" else 240
    n2 = 45 if ctx.tier == "quick" else 450
    cs = [mulgen_case(rng, i) for i in range(n1)] + [digits_case(rng, i) for i in range(n2)]
    cs += [history_case(rng, i) for i in range(6 if ctx.tier == "quick" else 36)]
    # fixed-base accumulation rows whose identity components cancel pairwise (a digit outside {-1,0,1} compensated in the
    # helper wire / next accumulator, ...): see props/c05.py cancel_case
    from props.c05 import cancel_cases
    cs += cancel_cases(rng, ("fixed",), 1 if ctx.tier == "quick" else 8)
    r.run(cs)
    st = r.report(broken)
    st["rule"] = ("generators {standard, random prime-order, Z-scaled}; scalar witnesses {0,1,2,r_J-1,r_J,r_J+1,2^252-1,2^252,"
                  "random<r_J,r-1,random}; digit vectors through the seam: honest NAF, binary, digits of s+r, s-r, s+r_J, a digit 2, "
                  "non-canonical scalar witness, non-zero leading digits, one digit off; the same with a scalar witness that went through weaker checks before (range 252 / 254 bits, decomposition, another multiplication); single fixed-base rows whose components cancel pairwise "
                  "(digit 2/3/-2/5 compensated by the xy helper or the next accumulator). Each case: layout/witness hashes impl vs "
                  "model, returned point vs [s]G (Python oracle), prove+verify vs model sysSat and vs 'canonical s and digits encode "
                  "s with zero leading block' (Python oracle).")
    return st
