"""C10 — AND / XOR return exactly the truncated result."""
from plib import *
from props.builder import Prog
from props.common import ProgRunner

LEAN_TARGETS = ["Plonk.Props.C10"]
ASSUMPTIONS = ["prover success coincides with 'every row identity holds' outside explicit bad-challenge sets (RO assumption)"]
THEOREMS_NOTE = "Plonk/Props/C10.lean"


def pair_values(rng, pairs):
    m = (1 << (2 * pairs))
    k = rng.below(6)
    if k == 0:
        return (m - 1) % R if pairs else 0, (m - 1) % R if pairs else 0          # all ones
    if k == 1:
        return R - 1, rng.fe()
    if k == 2:
        a = rng.fe()
        hi = (rng.fe() // m) * m if m < R else 0
        return a, (a % m + hi) % R                                               # differ only above the width
    if k == 3:
        return 0, R - 1
    return rng.fe(), rng.fe()


def one(rng, name, pairs, forge):
    p = Prog(); p.tags = [name]
    va, vb = pair_values(rng, pairs)
    a, b = p.w(va), p.w(vb)
    o = p.logic(name, pairs, a, b)
    if forge == 1 and pairs > 0:
        p.setw(o, (p.val(o) ^ 1) % R); p.unsat(); p.tags.append("forged-output")
    elif forge == 2 and pairs > 0:
        # forge the product wire of the first (most significant) quad. If the per-quad polynomial has another root,
        # use it: then ONLY the `w = a*b` component of the widget rejects the assignment (historical bug class)
        m = (1 << (2 * pairs)) - 1
        aq, bq = ((va & m) >> (2 * (pairs - 1))) & 3, ((vb & m) >> (2 * (pairs - 1))) & 3
        alts = logic_alt_roots(aq, bq, name == "xor")
        if alts:
            p.op("setw #%d %s" % (p.nwit0 + 2 + 2, hx(alts[0]))); p.unsat(); p.tags.append("forged-product-wire-other-root")
        else:
            p.op("setw #%d %s" % (p.nwit0 + 2 + 2, hx(5))); p.unsat(); p.tags.append("forged-product-wire")
    return p.case()


def cases(rng, tier):
    out = []
    reps = 1 if tier == "quick" else 6
    for pairs in range(0, 128):
        for name in ("and", "xor"):
            for rep in range(reps):
                forge = 0 if rep % 3 == 0 and (pairs + (name == "xor")) % 4 != 0 else rng.below(3)
                out.append(one(rng, name, pairs, forge))
    return out


def run(ctx, broken):
    rng = SplitMix(ctx.seed * 1000003 + 10)
    r = ProgRunner(ctx, "C10")
    from props.c05 import cancel_cases
    r.run(cases(rng, ctx.tier) + cancel_cases(rng, ("logic",), 1 if ctx.tier == "quick" else 8))
    st = r.report(broken)
    st["exhaustive_in_width"] = True
    st["rule"] = ("both operations x every pair count 0..=127 (layout exhaustive); inputs all-ones, r-1, pairs differing only "
                  "above the width, 0/r-1, random; returned witness forged (expect unsat) or a product wire forged (model decides). "
                  "Each case: layout/witness hashes impl vs model, returned value vs bitwise op on canonical values (Python oracle), "
                  "prove+verify vs model sysSat.")
    return st
