"""C10 — AND / XOR return exactly the truncated result."""
from plib import *
from props.builder import Prog
from props.common import ProgRunner

EXTRA_AUDITS = ["WidgetTie"]
LEAN_TARGETS = ["Plonk.Props.C10", "Plonk.Props.WidgetTie"]
ASSUMPTIONS = ["prover success coincides with 'every row identity holds' outside explicit bad-challenge sets (RO assumption)"]
THEOREMS_NOTE = "Plonk/Props/C10.lean"


def pair_values(rng, pairs):
    m = (1 << (2 * pairs))
    k = rng.below(6)
    if k == 0:
        return (m - 1) % R if pairs else 0, (m - 1) % R if pairs else 0          # all ones
    if k == 1:
        return R - 1, rng.fe()
    if k == 2:
        a = rng.fe()
        hi = (rng.fe() // m) * m if m < R else 0
        return a, (a % m + hi) % R                                               # differ only above the width
    if k == 3:
        return 0, R - 1
    return rng.fe(), rng.fe()


def one(rng, name, pairs, forge):
    p = Prog(); p.tags = [name]
    va, vb = pair_values(rng, pairs)
    a, b = p.w(va), p.w(vb)
    if forge == 0 and rng.coin(1, 6):
        b = a; vb = va; p.tags.append("shared-handles")     # the same witness on both inputs
    o = p.logic(name, pairs, a, b)
    if forge == 1 and pairs > 0:
        p.setw(o, (p.val(o) ^ 1) % R); p.unsat(); p.tags.append("forged-output")
    elif forge == 2 and pairs > 0:
        # forge the product wire of the first (most significant) quad. If the per-quad polynomial has another root,
        # use it: then ONLY the `w = a*b` component of the widget rejects the assignment (historical bug class)
        m = (1 << (2 * pairs)) - 1
        aq, bq = ((va & m) >> (2 * (pairs - 1))) & 3, ((vb & m) >> (2 * (pairs - 1))) & 3
        alts = logic_alt_roots(aq, bq, name == "xor")
        if alts:
            p.op("setw #%d %s" % (p.nwit0 + 2 + 2, hx(alts[0]))); p.unsat(); p.tags.append("forged-product-wire-other-root")
        else:
            p.op("setw #%d %s" % (p.nwit0 + 2 + 2, hx(5))); p.unsat(); p.tags.append("forged-product-wire")
    return p.case()


def cases(rng, tier):
    out = []
    for pairs in (0, 1, 2, 16, 127):            # the composer's constant witnesses as operands
        for name in ("and", "xor"):
            for a, b in (("#1", "#1"), ("#0", "#1"), ("#1", "#0")):
                p = Prog(); p.tags = [name, "constant-handle"]
                p.logic(name, pairs, a, b)
                out.append(p.case())
    reps = 1 if tier == "quick" else 6
    for pairs in range(0, 128):
        for name in ("and", "xor"):
            for rep in range(reps):
                forge = 0 if rep % 3 == 0 and (pairs + (name == "xor")) % 4 != 0 else rng.below(3)
                out.append(one(rng, name, pairs, forge))
    return out


def run(ctx, broken):
    rng = SplitMix(ctx.seed * 1000003 + 10)
    r = ProgRunner(ctx, "C10")
    from props.c05 import cancel_cases
    from props.common import full_alias_cases
    specs = []
    for pairs in ([1, 16, 31, 32, 33, 63, 64, 65, 96, 127] if ctx.tier == "quick" else range(1, 128)):
        for name in ("and", "xor"):
            # a small aliased input keeps the forged high part next to floor((r-1) / 2^n): the assignment that a guard with a
            # slightly wrong modulus bound lets through; a large one exercises the range check of the guard difference
            # 0 / 1: the boundary of the canonical guard (alias == r exactly passes a `<= r` guard)
            for va in (0, 1, rng.choice([rng.below(1 << 16), rng.below(1 << 16), rng.fe() % (1 << 250)])):
                vb = rng.fe()
                k = rng.below(2)
                src = "w %s;w %s;%s %d $0 $1" % (hx(va if k == 0 else vb), hx(vb if k == 0 else va), name, pairs)
                specs.append((src, k, va, [name, "alias-x-plus-r"]))
    # OPERAND SUBSTITUTION: every chain witness is generated from ANOTHER integer x' than the operand's value (host view), the
    # operand witness itself keeps x: only the binding of that operand's chain to the operand rejects it. The other operand
    # is an ordinary witness, the SAME value, or one of the composer's constant handles (#0 / #1).
    for pairs in ([1, 8, 16, 32, 127] if ctx.tier == "quick" else range(1, 128, 3)):
        for name in ("and", "xor"):
            for other in ("w", "#0", "#1"):
                for side in (0, 1):
                    m_ = (1 << (2 * pairs))
                    x = rng.fe() % m_
                    x2 = (x ^ (1 + rng.below(m_ - 1))) % m_ if m_ > 1 else x
                    if x2 == x:
                        continue
                    if other == "w":
                        src = "w %s;w %s;%s %d %s" % (hx(x), hx(rng.fe() % m_), name, pairs, "$0 $1" if side == 0 else "$1 $0")
                    else:
                        src = "w %s;%s %d %s" % (hx(x), name, pairs, ("$0 " + other) if side == 0 else (other + " $0"))
                    specs.append((src, 0, x, [name, "operand-substitution", "other=" + other], x2))
    alias = full_alias_cases(ctx, specs)
    # OPERAND SUBSTITUTION (all chain witnesses generated from another integer via the host-view hook; other operand a witness or a constant handle); NON-CANONICAL RE-DECOMPOSITION of one operand (layout-driven): with the other operand 0 every product wire and every
    # output quad is 0, so lowering ONE accumulator of the chain by 1 turns quad t-1 into d-1 (still a quad) and quad t into
    # d+4: only the range identity of that operand's quads rejects it. The accumulator witnesses are located in a dump of the
    # real composer by their honest values (prefixes of an operand whose base-4 digits are all 1..3).
    redec = []
    rspecs = []
    for pairs in ([2, 3, 8, 16, 31, 32, 64, 127] if ctx.tier == "quick" else range(2, 128)):
        for name in ("and", "xor"):
            for side in (0, 1):
                v = 0
                for _ in range(pairs):
                    v = v * 4 + 1 + rng.below(3)
                rspecs.append((pairs, name, side, v))
    dumps = ctx.impl(["dump w %s;w %s;%s %d $0 $1" % (((hx(v), hx(0)) if side == 0 else (hx(0), hx(v))) + (name, pairs)) for (pairs, name, side, v) in rspecs])
    for (pairs, name, side, v), dmp in zip(rspecs, dumps):
        if " W " not in dmp:
            continue
        W = [int(t, 16) for t in dmp.split(" W ")[1].split(" P ")[0].split(",")]
        t = 1 + rng.below(pairs - 1)                      # the quad that becomes d + 4; accumulator t-1 is lowered by one
        target = v >> (2 * (pairs - t))                    # honest value of accumulator t-1 (prefix of t digits)
        idxs = [i for i, x in enumerate(W) if x == target and i >= 8]
        if len(idxs) != 1:
            continue
        p = Prog(); p.tags = [name, "re-decomposed-operand", "side-%d" % side]
        a, b = (p.w(v), p.w(0)) if side == 0 else (p.w(0), p.w(v))
        p.logic(name, pairs, a, b)
        p.op("setw #%d %s" % (idxs[0], hx(target - 1))); p.unsat()
        redec.append(p.case())
    r.run(cases(rng, ctx.tier) + alias + redec + cancel_cases(rng, ("logic",), 1 if ctx.tier == "quick" else 8))
    st = r.report(broken)
    st["exhaustive_in_width"] = True
    st["rule"] = ("both operations x every pair count 0..=127 (layout exhaustive); inputs all-ones, r-1, pairs differing only "
                  "above the width, 0/r-1, random; returned witness forged (expect unsat) or a product wire forged (model decides); OPERAND SUBSTITUTION (all chain witnesses generated from another integer via the host-view hook; other operand a witness or a constant handle); NON-CANONICAL RE-DECOMPOSITION of one operand while the other is 0 (one accumulator lowered by 1: a quad of d+4, located in the real layout); COMPLETE x+r alias assignments of one input (quads, accumulators, high part, "
                  "guard helper wires all consistent; only the canonical guard rejects) at limb-boundary pair counts (all in thorough). "
                  "Each case: layout/witness hashes impl vs model, returned value vs bitwise op on canonical values (Python oracle), "
                  "prove+verify vs model sysSat.")
    return st
