"""Shared machinery for the verifier-level properties (C02, C03, C04, C16): requests are emitted by the
harness from real proofs (`emitv` / `emitforced`), answered by the real verifier and by the Lean model
verifier (transcript recomputed from bytes, equation in the trapdoor view), and compared."""
import subprocess, os
from plib import *
from props.builder import Prog, PProg


def circuits(rng, n_extra=0):
    """a small family of circuits with public inputs on different rows, plus near-miss variants"""
    out = []
    # 1. arithmetic with two public inputs (first user row is a public-input row)
    out.append(("arith2pi", "pub 5;w 7;gadd 0 1 1 0 3 - $0 $1 #0;pub 9;bool #1"))
    # near misses of 1
    out.append(("arith2pi-selector", "pub 5;w 7;gadd 0 1 2 0 3 - $0 $1 #0;pub 9;bool #1"))
    out.append(("arith2pi-wire", "pub 5;w 7;gadd 0 1 1 0 3 - $1 $0 #0;pub 9;bool #1"))
    out.append(("arith2pi-one-more-gate", "pub 5;w 7;gadd 0 1 1 0 3 - $0 $1 #0;pub 9;bool #1;bool #0"))
    out.append(("arith2pi-one-fewer-gate", "pub 5;w 7;gadd 0 1 1 0 3 - $0 $1 #0;pub 9"))
    out.append(("arith2pi-pi-row-moved", "w 5;w 7;gadd 0 1 1 0 3 - $0 $1 #0;pub 9;pub 5;bool #1"))
    out.append(("arith2pi-extra-pi", "pub 5;w 7;gadd 0 1 1 0 3 5 $0 $1 #0;pub 9;bool #1"))
    # same gates, selectors and wiring; one more public-input row whose value is ZERO (contributes nothing to PI(z))
    out.append(("arith2pi-extra-zero-pi", "pub 5;w 7;gadd 0 1 1 0 3 0 $0 $1 #0;pub 9;bool #1"))
    # 1b. NO public inputs at all: any non-empty public-input vector must be refused (length 0 is the only matching statement)
    out.append(("no-public-inputs", "w 5;w 7;gadd 0 1 1 0 3 - $0 $1 #0;bool #1"))
    # 2. range + logic + select, public inputs adjacent and zero-valued
    out.append(("gadgets", "pub 0;pub 1;w 2d;rangebits 7 $2;w 33;xor 4 $2 $3;and 3 $2 $3;sel $1 $2 $3;pub 0"))
    # 3. points
    P = random_subgroup_point(rng); Q = random_subgroup_point(rng)
    p = PProg(); a, _ = p.pt(ext_of(P)); b, _ = p.pt(ext_of(Q), "ppt"); p.add(a, b); p.tf(a)
    out.append(("points", p.src()))
    # 3b. fixed-base multiplication (the only user of the fixed-base widget; n = 512), one public input after it
    p = PProg(); sc = p.w(rng.fe() % RJ); p.mulgen(sc, ext_of(random_subgroup_point(rng))); p.pub(rng.fe())
    out.append(("fixed-base", p.src()))
    # 4. pad to exactly a power of two with a public input on the last row
    p = Prog(); x = p.w(3)
    for _ in range(9):
        p.op("gate 0 0 0 0 0 0 - #0 #0 #0 #0")
    p.pub(11); p.pub(12)
    out.append(("pi-last-row", p.src()))   # 4 + 9 + 2 = 15 .. plus w → adjust below by the emitter's own count
    for i in range(n_extra):
        p = Prog()
        for _ in range(1 + rng.below(4)):
            k = rng.below(4)
            if k == 0:
                p.pub(rng.fe())
            elif k == 1:
                p.rangebits(2 * rng.below(6), p.w(0))
            elif k == 2:
                p.logic("xor", rng.below(4), p.w(rng.fe()), p.w(rng.fe()))
            else:
                p.boolean(p.w(rng.below(2)))
        p.pub(rng.fe())
        out.append(("random-%d" % i, p.src()))
    return out


def verifier_header_variants(lines, limit=2):
    """the same proof and public inputs against a verifier whose serialized header declares ANOTHER circuit size / constraint
    count (both are part of the statement: they go into the transcript): +1, doubled, and shifted by multiples of 2^32 / 2^16
    (a size absorbed in a narrower integer type). Each must be refused (by the decoder or by verification)."""
    out = []
    honest = [l for l in lines if l.split(" ", 1)[0] == "expect-ok:honest"][:limit]
    for l in honest:
        toks = l.split(" ")
        vb = bytes.fromhex(toks[4])
        for (name, off) in (("size", 32), ("constraints", 40)):
            old = int.from_bytes(vb[off:off + 8], "big")
            for what, new in (("plus-1", old + 1), ("doubled", old * 2), ("plus-2^32", old + (1 << 32)), ("plus-2^33", old + (1 << 33)),
                              ("plus-2^16", old + (1 << 16)), ("plus-2^63", old + (1 << 63))):
                if new >= (1 << 64) or new == old:
                    continue
                v2 = vb[:off] + new.to_bytes(8, "big") + vb[off + 8:]
                # `constraints` is part of the statement (it is absorbed into the transcript); the redundant `size` field is not
                # used by verification at all (the domain comes from the key's n): for it only model == implementation is required
                tag = "expect-reject" if name == "constraints" else "any"
                out.append("%s:verifier-header-%s-%s %s" % (tag, name, what, " ".join(toks[1:4] + [v2.hex()] + toks[5:])))
    return out


def impl_challenges(ctx, verify_reqs):
    """the challenges the REAL verifier derives for `verify …` requests (hook verif::take_verifier_challenges, harness command
    `vchals`): list of dicts name -> int (empty dict when the verifier did not get that far). Forgeries are built for THESE
    challenges, so they stay valid when the implementation's transcript differs from the model's."""
    outs = ctx.impl(["vchals " + r.split(" ", 1)[1] for r in verify_reqs])
    res = []
    for o in outs:
        d = {}
        for t in o.split():
            if "=" in t:
                k, v = t.split("=", 1)
                try:
                    d[k] = int(v, 16)
                except ValueError:
                    pass
        res.append(d)
    return res


def challenge_correspondence(ctx, lines, limit=6):
    """the challenges of the real verifier (hook) == the challenges of the Lean model's transcript, on honest statements"""
    honest = [l for l in lines if l.split(" ", 1)[0] == "expect-ok:honest"][:limit]
    if not honest:
        return 0
    ics = impl_challenges(ctx, [l.split(" ", 1)[1] for l in honest])
    ans = ctx.model(["chals " + l.split(" ", 2)[2] for l in honest])
    for l, ic, a in zip(honest, ics, ans):
        d = dict(t.split("=", 1) for t in a.split() if "=" in t)
        bad = [k for k in ("z", "u", "v", "vw", "alpha", "beta", "gamma") if k in d and ic.get(k) != int(d[k], 16)]
        if bad or "z" not in ic:
            ctx.violation("correspondence:challenges", {"kind": "model-vs-implementation", "why": "the real verifier's challenges differ from "
                          "the model transcript's: " + ",".join(bad or ["none recorded"]), "request": l[:600],
                          "impl": {k: "%x" % v for k, v in ic.items()}, "model": a[:600]}, no_input=True)
            break
    return len(honest)


def shifted_openings(ctx, lines, limit=4):
    """Frozen-heart style forgery against the batching challenge `u`: from an honest proof build
         W_z'  = W_z  + [u (x - z w)] G,      W_zw' = W_zw - [x - z] G
    (x the trapdoor; the attacker would use [x]G from the public parameters). The pairing equation is invariant under
    this shift for the `u` the shift was built with, so the forged proof is accepted exactly by a verifier whose `u`
    does not depend on the opening commitments. `u`, `z`, the domain generator and G come from the Lean model's
    `chals` command (the model follows the transcript order extracted from the source)."""
    out = []
    honest = [l for l in lines if l.split(" ", 1)[0] == "expect-ok:honest"][:limit]
    if not honest:
        return out
    reqs = ["chals " + l.split(" ", 2)[2] for l in honest]
    ans = ctx.model(reqs)
    for l, a in zip(honest, ans):
        d = dict(t.split("=", 1) for t in a.split() if "=" in t)
        if not all(k in d for k in ("z", "u", "omega", "g")):
            continue
        toks = l.split(" ")
        x = int(toks[3], 16); proof = bytes.fromhex(toks[-1])
        z, u, om = int(d["z"], 16), int(d["u"], 16), int(d["omega"], 16)
        ic = impl_challenges(ctx, [l.split(" ", 1)[1]])[0]
        if "z" in ic and "u" in ic:
            z, u = ic["z"], ic["u"]
        g = d["g"]
        wz, wzw = proof[9 * 48:10 * 48].hex(), proof[10 * 48:11 * 48].hex()
        a1 = u * ((x - z * om) % R) % R
        b1 = (-(x - z)) % R
        m = ctx.model(["g1mul %x %s" % (a1, g), "g1mul %x %s" % (b1, g)])
        m2 = ctx.model(["g1add %s %s" % (wz, m[0].strip()), "g1add %s %s" % (wzw, m[1].strip())])
        if any((not t.strip()) or t.startswith("err") or t.startswith("bad") for t in m + m2):
            continue
        forged = proof[:9 * 48] + bytes.fromhex(m2[0].strip()) + bytes.fromhex(m2[1].strip()) + proof[11 * 48:]
        out.append("expect-reject:shifted-openings " + " ".join(toks[1:-1]) + " " + forged.hex())
    return out


def unbound_key_commitments(ctx, lines, limit=2, slots=range(15)):
    """Forgery against a verifier-key commitment that the transcript does not bind. For key commitment C_j with total
    scalar s_j in the verification equation, replace
         C_j  by  C_j + [d (x - z)] G      (the commitment of d (X - z); an attacker uses [x]G from the parameters)
         W_z  by  W_z + [s_j d] G
    The pairing equation is invariant under this pair of shifts for the challenges it was built with, so the (key', proof')
    pair is accepted exactly by a verifier whose challenges do not depend on C_j. An honest verifier derives other
    challenges from key' and rejects. `z`, `s_j` and G come from the Lean model (`vkscalars`). Only V3 statements: V1/V2
    do not bind s_sigma_4 by design (the property says 'all four permutation commitments in V3')."""
    out = []
    honest = [l for l in lines if l.split(" ", 1)[0] == "expect-ok:honest" and l.split(" ")[2] in ("3", "v3", "V3")][:limit]
    if not honest:
        honest = [l for l in lines if l.split(" ", 1)[0] == "expect-ok:honest"][:limit]
    ics = impl_challenges(ctx, [l.split(" ", 1)[1] for l in honest])
    def ovr(ic):
        return "".join(" %s=%x" % (k, ic[k]) for k in ("alpha", "beta", "gamma", "rsep", "lsep", "fsep", "vsep", "z", "v", "vw", "u") if k in ic)
    reqs = ["vkscalars " + l.split(" ", 2)[2] + ovr(ic) for l, ic in zip(honest, ics)]
    ans = ctx.model(reqs)
    for l, a in zip(honest, ans):
        d = dict(t.split("=", 1) for t in a.split() if "=" in t)
        if not all(k in d for k in ("z", "scalars", "g")):
            continue
        toks = l.split(" ")
        ver = toks[2]
        x = int(toks[3], 16); vbytes = bytes.fromhex(toks[4]); proof = bytes.fromhex(toks[-1])
        z = int(d["z"], 16); g = d["g"]
        sc = [int(t, 16) for t in d["scalars"].split(",")]
        lab_len = int.from_bytes(vbytes[0:8], "big")
        off0 = 48 + lab_len + 8
        wz = proof[9 * 48:10 * 48].hex()
        for j in slots:
            if j == 14 and ver not in ("3", "v3", "V3"):
                continue
            dl = 1 + (j * 7919 + x) % 1000
            cj = vbytes[off0 + 48 * j: off0 + 48 * j + 48].hex()
            m = ctx.model(["g1mul %x %s" % (dl * ((x - z) % R) % R, g), "g1mul %x %s" % (sc[j] * dl % R, g)])
            if any((not t.strip()) or t.startswith("err") or t.startswith("bad") for t in m):
                continue
            m2 = ctx.model(["g1add %s %s" % (cj, m[0].strip()), "g1add %s %s" % (wz, m[1].strip())])
            if any((not t.strip()) or t.startswith("err") or t.startswith("bad") for t in m2):
                continue
            v2 = vbytes[:off0 + 48 * j] + bytes.fromhex(m2[0].strip()) + vbytes[off0 + 48 * j + 48:]
            p2 = proof[:9 * 48] + bytes.fromhex(m2[1].strip()) + proof[10 * 48:]
            out.append("expect-reject:shifted-key-commitment-%d %s %s %s %s %s %s" % (j, toks[1], toks[2], toks[3], v2.hex(), " ".join(toks[5:-1]), p2.hex()))
    return out


def compensated_public_inputs(ctx, lines, limit=2):
    """Forgery against a transcript that does not bind every byte of every public input: keep the proof, change two public
    inputs p_i, p_j so that the public-input polynomial keeps its value at the evaluation challenge,
         p_i' = p_i + d,   p_j' = p_j - d * L_i(z) / L_j(z)      (L_k the Lagrange basis polynomial of the row of input k)
    for d touching different bytes (1, 2^8, 2^16, 2^128, 2^248). The verification equation is unchanged for the z the pair
    was built with, so (proof, pis') is accepted exactly by a verifier whose challenges do not depend on the changed bytes.
    z, n, omega come from the Lean model (`chals`); the rows from the verifier bytes."""
    out = []
    honest = [l for l in lines if l.split(" ", 1)[0] == "expect-ok:honest" and l.split(" ")[5].count(",") >= 1][:limit]
    reqs = ["chals " + l.split(" ", 2)[2] for l in honest]
    ans = ctx.model(reqs) if reqs else []
    for l, a in zip(honest, ans):
        d = dict(t.split("=", 1) for t in a.split() if "=" in t)
        if not all(k in d for k in ("z", "n", "omega")):
            continue
        toks = l.split(" ")
        vbytes = bytes.fromhex(toks[4])
        pis = [int(t, 16) for t in toks[5].split(",")]
        z, n, om = int(d["z"], 16), int(d["n"]), int(d["omega"], 16)
        ic = impl_challenges(ctx, [l.split(" ", 1)[1]])[0]
        if "z" in ic:
            z = ic["z"]
        npi = int.from_bytes(vbytes[24:32], "big")
        if npi != len(pis) or npi < 2:
            continue
        rows = [int.from_bytes(vbytes[len(vbytes) - 8 * (npi - k): len(vbytes) - 8 * (npi - k) + 8], "big") for k in range(npi)]
        def lag(i):
            wi = pow(om, i, R)
            return (pow(z, n, R) - 1) * inv(n) % R * wi % R * inv((z - wi) % R) % R
        pairs = [(0, 1), (npi - 1, 0), (npi - 2, npi - 1)]
        for (i, j) in pairs:
            if i == j or lag(rows[j]) == 0:
                continue
            for dl in (1, 1 << 8, 1 << 16, 1 << 128, 1 << 248):
                q = list(pis)
                q[i] = (q[i] + dl) % R
                q[j] = (q[j] - dl * lag(rows[i]) % R * inv(lag(rows[j]))) % R
                out.append("expect-reject:compensated-public-inputs-%d-%d %s %s" % (i, j, " ".join(toks[1:5]), ",".join(hx(x) for x in q)) + " " + toks[6])
    return out


def uncovered_evaluations(ctx, rng, n_circuits=1):
    """Forgery against a batched opening that does not cover one of the carried evaluations. The LYING copy of the Lean
    specification prover (lean/Plonk/Driver/Forge.lean, driver command `provelie`) shifts one evaluation (a_w, b_w, d_w, q_c,
    q_l or q_r) by d and leaves the polynomial it belongs to out of the aggregated opening witness (keeping the other entries'
    powers of the aggregation challenge, or moving the later ones up). In a circuit without range / logic / curve rows these
    evaluations do not enter the linearisation, so a verifier that forgot exactly this evaluation accepts the proof; a verifier
    whose openings cover every evaluation rejects it. Also one honest control per circuit (lie of 0)."""
    from props.pcommon import prove_line, srs_draws, draw_hex
    out = []
    srs = srs_draws(rng)
    progs = ["pub 5;w 7;gadd 0 1 1 0 3 - $0 $1 #0;pub 9;bool #1",
             "w 3;w 4;gmul 1 0 0 0 0 - $0 $1 #0;w 1;bool $3;pub c"]
    reqs, tags = [], []
    for src in progs[:n_circuits]:
        draws = [draw_hex(rng) for _ in range(14)]
        pl = prove_line(srs, 32, b"plonk", draws, 3, src)
        for lie in range(6):
            for shift in (0, 1):
                reqs.append("provelie %d %x %d %s" % (lie, 1 + rng.below(1000), shift, pl))
                tags.append("expect-reject:uncovered-evaluation-%s-%s" % (["a_w", "b_w", "d_w", "q_c", "q_l", "q_r"][lie], "shifted-powers" if shift else "kept-powers"))
        reqs.append("provelie 9 0 0 %s" % pl); tags.append("expect-ok:lying-prover-control")
    ans = ctx.model(reqs)
    for tg, a in zip(tags, ans):
        d = dict(t.split("=", 1) for t in a.split() if "=" in t)
        if not all(k in d for k in ("proof", "pis", "x", "vbytes")):
            ctx.violation("machinery:provelie", {"why": "the lying prover did not answer", "output": a[:200]}, no_input=True)
            continue
        out.append("%s verify 3 %s %s %s %s" % (tg, d["x"], d["vbytes"], d["pis"], d["proof"]))
    return out


def labels():
    return [("plonk", b"plonk"), ("plonl", b"plonl"), ("Plonk", b"Plonk"), ("plon", b"plon"), ("plonk0", b"plonk\x00"), ("empty", b"")]


class VerifyRunner:
    def __init__(self, ctx, prop):
        self.ctx, self.prop = ctx, prop
        self.n = 0
        self.dist = {}
        self.samples = []
        self.mismatch = []
        self.impl_fail = []
        self.distinct = set()
        self.spec_ok = 0
        self.noncanonical = 0

    def tag(self, t):
        self.dist[t] = self.dist.get(t, 0) + 1

    def emit(self, kind, entries, seed, budget=64):
        """entries: list of stdin lines for the harness emitter"""
        env = dict(os.environ)
        p = subprocess.run([self.ctx.harness_bin(), kind, str(seed), str(budget)], input="\n".join(entries) + "\n",
                           stdout=subprocess.PIPE, stderr=subprocess.PIPE, text=True, env=env)
        return [l for l in p.stdout.split("\n") if l.strip()]

    def run(self, tagged_lines, workers=8):
        if not tagged_lines:
            return
        tags = [l.split(" ", 1)[0] for l in tagged_lines]
        lines = [l.split(" ", 1)[1] for l in tagged_lines]
        impl = self.ctx.impl(lines, workers=workers)
        model = self.ctx.model(lines, workers=workers)
        for tg, ln, io, mo in zip(tags, lines, impl, model):
            self.n += 1
            self.distinct.add(ln)
            exp, what = tg.split(":", 1)
            if io.startswith("bad-request") or mo.startswith("bad-request"):
                # a malformed request is a defect of this machinery, never an agreement
                self.ctx.violation("machinery:bad-request", {"why": "a generated request was not understood", "tag": tg,
                                                              "request": ln[:600], "impl_output": io[:100], "model_output": mo[:100]}, no_input=True)
                continue
            import re
            self.tag(re.sub(r"-\d+(-|$)", r"-N\1", what))
            self.tag("impl:" + io.split(" ")[0])
            if len(self.samples) < 5 and self.n % 37 == 1:
                self.samples.append({"tag": tg, "request": ln[:160] + " …", "impl": io, "model": mo})
            base = mo.replace(" spec=ok", "").replace(" spec=MISMATCH", "")
            if "spec=ok" in mo:
                self.spec_ok += 1
            if "NONCANONICAL" in io:
                self.noncanonical += 1
                self.impl_fail.append((tg, ln, io, "proof decoder accepted a byte string that does not re-encode to itself"))
            if io.startswith("panic") or io.startswith("crash"):
                self.impl_fail.append((tg, ln, io, "verifier panicked"))
                continue
            if "spec=MISMATCH" in mo:
                self.mismatch.append((tg, ln, io, mo, "model: grouped MSM differs from the textbook equation"))
            if io != base:
                self.mismatch.append((tg, ln, io, mo, "verifier decision differs from the model"))
            ok = io.split(" ")[0] == "ok"
            if exp == "expect-ok" and not ok:
                self.impl_fail.append((tg, ln, io, "an honest proof / matching statement was rejected"))
            if exp == "expect-reject" and ok:
                self.impl_fail.append((tg, ln, io, "the verifier accepted: " + what))

    def report(self):
        ctx = self.ctx
        for (tg, ln, io, why) in self.impl_fail[:3]:
            ctx.violation("impl:" + tg.split(":", 1)[1][:40], {"kind": "implementation-vs-property", "why": why, "tag": tg,
                                                                "request": ln, "impl_output": io})
        if self.mismatch and not self.impl_fail:
            tg, ln, io, mo, why = self.mismatch[0]
            ctx.violation("correspondence:" + tg.split(":", 1)[1][:40],
                          {"kind": "model-vs-implementation", "why": why, "tag": tg, "request": ln, "impl_output": io,
                           "model_output": mo, "count": len(self.mismatch)}, no_input=True)
        return {"evaluations": self.n, "distinct_nontrivial": len(self.distinct), "samples": self.samples,
                "input_distribution": dict(sorted(self.dist.items())), "model_disagreements": len(self.mismatch),
                "impl_property_failures": len(self.impl_fail), "accepted_proofs_checked_against_textbook_equation": self.spec_ok}
