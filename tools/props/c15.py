"""C15 — compressed circuit descriptions compile to the identical keys."""
import subprocess, zlib
from plib import *
from props.common import LineRunner, ProgRunner
from props.builder import Prog, PProg
from props.pcommon import *

LEAN_TARGETS = ["Plonk.Props.C15", "Plonk.Props.C15Packed"]
EXTRA_AUDITS = ["C15Packed"]
PROFILE = "release"
EXTRA_PROFILES = ["checked"]
ASSUMPTIONS = ["deflate / inflate (miniz_oxide) is external and not modelled: the model works on the inflated MessagePack payload "
               "(msgpacker's encodings of bool/usize/u8/arrays and SHA-512 are re-implemented in the model and compared byte for byte)",
               "the built-in constant table (0, 1, -1, Hades constants) is an input of the dictionary theorems"]
THEOREMS_NOTE = "Plonk/Props/C15.lean"


def hades_table():
    """the scalars of the built-in dictionary of the compressed format (src/composer/compress/hades.rs): the 335 round
    constants (SHA-512 chain, running sum) and the 25 entries 1/(i+j+5) of the MDS matrix (which REPEAT: 9 distinct values)"""
    import hashlib
    cs, pacc, b = [], 1, b"poseidon-for-plonk"
    for _ in range(67 * 5):
        b = hashlib.sha512(b).digest()
        c = (int.from_bytes(b, "little") + pacc) % R
        cs.append(c); pacc = c
    mds = [inv(i + j + 5) for i in range(5) for j in range(5)]
    return cs, mds


HADES_CONSTANTS, HADES_MDS = hades_table()


def circuits(rng, n):
    out = []
    for i in range(n):
        p = Prog()
        k = i % 7
        if k == 6:      # selectors taken from the built-in dictionary: every distinct MDS entry, some round constants
            ks = sorted(set(HADES_MDS)) + [rng.choice(HADES_CONSTANTS) for _ in range(3)] + [rng.choice(HADES_MDS) for _ in range(2)]
            if i % 14 == 13:
                ks = [rng.choice(HADES_MDS) for _ in range(2 + rng.below(3))] + [rng.choice(HADES_CONSTANTS)]
            for kk in ks:
                x = rng.fe()
                a, c = p.w(x), p.w(kk * x % R)
                pos = rng.below(3)
                if pos == 0:    # k*a - c = 0
                    p.gate([0, kk, 0, R - 1, 0, 0], None, a, "#0", c, "#0")
                elif pos == 1:  # k*b - c = 0
                    p.gate([0, 0, kk, R - 1, 0, 0], None, "#0", a, c, "#0")
                else:           # a*1*... : q_m = k on (a, one)   k*a*1 - c = 0
                    one = p.w(1)
                    p.gate([kk, 0, 0, R - 1, 0, 0], None, a, one, c, "#0")
            out.append(p.src())
            continue
        if i % 9 == 8:  # public inputs on NON-arithmetic rows (append_custom_gate with .public): zero-selector and range rows
            from props.c05 import raw
            a = p.w(0)
            p.op(raw([0] * 11, 0, [p.ref(a), "#0", "#0", "#0"]))
            p.boolean(p.w(1))
            sel11 = [0] * 11; sel11[7] = 1
            p.op(raw(sel11, 0, ["#0", "#0", "#0", "#0"]))
            p.op(raw([0] * 11, None, ["#0", "#0", "#0", "#0"]))
            p.pub(rng.fe())
            out.append(p.src())
            continue
        ws = [p.w(rng.fe()) for _ in range(2 + rng.below(4))]          # some stay unused
        if k == 0:      # repeated selector tuples
            for _ in range(3):
                p.op("gate 1 2 3 4 5 6 - %s %s %s %s" % tuple(p.ref(rng.choice(ws)) for _ in range(4)))
        elif k == 1:    # distinct tuples, selectors equal to built-in table entries 0, 1, -1
            for _ in range(3):
                q = [rng.choice([0, 1, R - 1]) for _ in range(6)]
                p.op("gate %s - %s %s %s %s" % (" ".join(hx(x) for x in q), *(p.ref(rng.choice(ws)) for _ in range(4))))
        elif k == 2:    # zero-valued public inputs, first user row
            p.ops.insert(0, "pub 0"); p.regs.insert(0, 0)
            p = Prog(); p.pub(0); p.w(5); p.pub(0); p.boolean(p.w(1))
        elif k == 3:    # widgets
            p.rangebits(2 * rng.below(6), p.w(0)); p.logic("and", rng.below(4), ws[0], ws[1])
        elif k == 4:    # random selectors
            for _ in range(2 + rng.below(3)):
                q = [rng.fe() for _ in range(6)]
                p.op("gate %s %s %s %s %s %s" % (" ".join(hx(x) for x in q), rng.choice(["-", hx(rng.fe())]), *(p.ref(rng.choice(ws)) for _ in range(4))))
        else:           # public input on the last row
            p.boolean(p.w(1)); p.pub(rng.fe())
        out.append(p.src())
    return out


def inflate(b):
    return zlib.decompressobj(wbits=-15).decompress(b)


def deflate(b):
    c = zlib.compressobj(level=9, wbits=-15)
    return c.compress(b) + c.flush()


def run(ctx, broken):
    rng = SplitMix(ctx.seed * 1000003 + 15)
    n = 18 if ctx.tier == "quick" else 120
    progs = circuits(rng, n)
    # DENSE descriptions: circuits that fill the parameters' capacity (almost) completely with FRESH full-width selector scalars
    # in every gate — 6 random coefficients per arithmetic gate, and the worst case of the packed size: 11 selectors per row whose
    # little-endian bytes are all >= 0x80 (two MessagePack bytes each). They must still fit the inflate limit of the capacity.
    def wide_scalar():
        return int.from_bytes(bytes([0x80 + rng.below(0x80) for _ in range(31)] + [0x40 + rng.below(0x30)]), "little") % R
    from props.c05 import raw
    dense = []
    p_ = Prog(); ws_ = [p_.w(rng.fe()) for _ in range(4)]
    for _ in range(20):
        p_.op("gate %s - %s" % (" ".join(hx(rng.fe()) for _ in range(6)), " ".join(p_.ref(rng.choice(ws_)) for _ in range(4))))
    dense.append(("dense-6-random-coefficients", p_.src(), 32))
    p_ = Prog(); ws_ = [p_.w(rng.fe()) for _ in range(4)]
    for _ in range(22):
        p_.op(raw([wide_scalar() for _ in range(11)], None, [p_.ref(rng.choice(ws_)) for _ in range(4)]))
    dense.append(("dense-11-wide-selectors-at-capacity", p_.src(), 32))
    progs += [src for (_, src, _) in dense]
    # 1. structural round trip: impl snapshot after compress+decompress == model relabelling
    r1 = ProgRunner(ctx, "C15")
    r1.run([{"src": s, "cmd": "cmpsnap", "expect": None, "rv": None, "tags": ["compress-decompress-snapshot"]} for s in progs], cmd="cmpsnap")
    # 2. both routes give identical prover/verifier bytes; succeed or fail together for every capacity
    r2 = LineRunner(ctx, "C15")
    srs = srs_draws(rng)
    cs = []
    for s in progs[: (9 if ctx.tier == "quick" else 40)]:
        for deg in ([6, 9, 10, 16, 26, 40] if ctx.tier == "quick" else [1, 2, 5, 6, 9, 10, 11, 16, 25, 26, 27, 40, 58, 59, 130]):
            draws = [draw_hex(rng) for _ in range(14)]
            cs.append({"line": prove_line(srs, deg, b"c15", draws, 3, s, routes=True), "tags": ["routes-deg-%d" % deg]})
    for (nm, src, deg) in dense:
        draws = [draw_hex(rng) for _ in range(14)]
        # the direct route must compile it (the instance itself need not be satisfied: the outcome is the unsatisfied-circuit error)
        cs.append({"line": prove_line(srs, deg, b"c15", draws, 3, src, routes=True), "tags": ["routes-" + nm], "expect_prefix": "err:unsat"})
    for deg in range(1, 70 if ctx.tier == "quick" else 300):
        cs.append({"line": "maxcons %d %s" % (deg, srs), "tags": ["max-constraints"], "strip_first": True})
    # model prints max_constraints from the degree; impl prints "<max_degree> <max_constraints>"
    lines = [c["line"] for c in cs if "maxcons" in c["line"]]
    impl = ctx.impl(lines)
    model = ctx.model(["maxcons %d" % (int(l.split()[1]) + 6) for l in lines])
    for l, io, mo in zip(lines, impl, model):
        if io.split(" ")[-1] != mo.strip():
            ctx.violation("correspondence:max-constraints", {"kind": "model-vs-implementation", "request": l, "impl_output": io,
                                                              "model_output": mo}, no_input=True)
            break
    r2.run([c for c in cs if "maxcons" not in c["line"]])
    # 3. malformed / oversized payloads: error, bounded allocation, never a panic (debug-assertions build)
    p = subprocess.run([ctx.harness_bin(), "compress"], input="\n".join(progs[:6]) + "\n", stdout=subprocess.PIPE, text=True)
    valid = [bytes.fromhex(h) for h in p.stdout.split() if h != "err"]
    mal = []
    for vb in valid:
        raw = inflate(vb)
        mx = 4096
        mal.append(("valid", mx, vb, "ok"))
        mal.append(("trailing-byte-packed", mx, deflate(raw + b"\x00"), "err"))
        mal.append(("truncated-packed", mx, deflate(raw[:-3]), "err"))
        mal.append(("trailing-garbage-deflate", mx, vb + b"\x00\x01\x02", None))
        mal.append(("max-too-small", 3, vb, "err"))
        for _ in range(6 if ctx.tier == "quick" else 60):
            m = bytearray(raw); i = rng.below(len(m)); m[i] ^= 1 << rng.below(8)
            mal.append(("bitflip-packed", mx, deflate(bytes(m)), None))
        for _ in range(3 if ctx.tier == "quick" else 30):
            m = bytearray(vb); i = rng.below(len(m)); m[i] ^= 1 << rng.below(8)
            mal.append(("bitflip-deflate", mx, bytes(m), None))
        # inflate the witness count / array headers: overwrite plausible count bytes with 0xff
        for i in range(min(len(raw), 12)):
            m = bytearray(raw); m[i] = 0xdd if i % 2 else 0xff
            mal.append(("header-edit", mx, deflate(bytes(m)), None))
    mal.append(("zip-bomb", 64, deflate(b"\x00" * (32 << 20)), "err"))
    mal.append(("zip-bomb-ff", 64, deflate(b"\xdd\xff\xff\xff\xff" * (1 << 20)), "err"))
    mal.append(("empty", 64, b"", "err"))
    lines = ["cmpdec %d %s" % (mx, b.hex() or "-") for (_, mx, b, _) in mal]
    outs = ctx.impl(lines, profile="checked")
    nbad = 0
    dist = {}
    for (name, mx, b, exp), l, o in zip(mal, lines, outs):
        dist[name] = dist.get(name, 0) + 1
        kind = o.split(" ")[0].split(":")[0]
        dist["decode:" + kind] = dist.get("decode:" + kind, 0) + 1
        peak = int(o.split("peak=")[1]) if "peak=" in o else 0
        limit = 40 * (857 * mx + 30) + (1 << 20)
        why = None
        if o.startswith("panic") or o.startswith("crash"):
            why = "decoder panicked / aborted"
        elif exp == "ok" and kind != "ok":
            why = "a valid description within capacity was rejected"
        elif exp == "err" and kind == "ok":
            why = "a description with trailing / truncated data or beyond the capacity was accepted"
        elif peak > limit:
            why = "peak allocation %d exceeds the capacity-derived bound %d" % (peak, limit)
        if why and nbad == 0:
            nbad += 1
            ctx.violation("impl:compressed-decoder:" + name, {"kind": "implementation-vs-property", "why": why, "request": l[:3000],
                                                               "impl_output": o})
    # 4. the MessagePack payload itself: model payload == inflate(compress()) byte for byte; the model's from_bytes on the
    #    inflated payload is the oracle for structure-aware variants (index boundaries, capacities, encodings, trailing data)
    from props import packed
    npk, dpk = packed.run_packed(ctx, "C15", progs[: (6 if ctx.tier == "quick" else 40)], rng, "checked", ctx.tier != "quick")
    st = r2.report()
    s1 = r1.report()
    st["packed_payload_cases"] = npk
    st["packed_payload_distribution"] = dpk
    st["evaluations"] += s1["evaluations"] + len(mal) + npk
    st["distinct_nontrivial"] += s1["distinct_nontrivial"]
    st["snapshot_model_disagreements"] = s1["model_disagreements"]
    st["payload_distribution"] = dist
    st["rule"] = ("%d circuits (unused witnesses, repeated / distinct selector tuples, selectors equal to the table entries 0,1,-1, random "
                  "selectors, zero-valued public inputs, public input on first / last row, public inputs on non-arithmetic rows, widgets, dense descriptions filling the capacity with fresh full-width selectors): (1) decompress(compress(c)) on the "
                  "implementation == the Lean model's first-use relabelling; (2) for SRS degrees from too small to ample both routes "
                  "give byte-identical prover and verifier or both fail, and the proof equals the specification prover's; "
                  "Compiler::max_constraints == model for every degree; (3) re-packed payloads (trailing data, truncation, bit flips "
                  "in the MessagePack and in the deflate stream, header edits, zip bombs, capacity too small) in the debug-assertions "
                  "build: error or valid, never a panic, peak allocation below 40*(857*max+30)+1MiB; (4) the MessagePack payload of "
                  "Circuit::compress() == the Lean model's from_composer+pack byte for byte (incl. the SHA-512-derived built-in dictionary), and "
                  "the real from_bytes == the model's from_bytes on structure-aware variants of each payload (every index at its first "
                  "invalid and last valid value, capacity exact / one short, declared lengths off by one / huge, non-minimal integer and "
                  "array encodings, trailing / truncated data, non-canonical scalars, the other dictionary, sparse witness labels)." % n)
    return st
