"""C16 — serialization round trips preserve keys, proofs and parameters."""
import subprocess
from plib import *
from props.common import LineRunner, hash_list
from props.builder import PProg
from props.pcommon import *

LEAN_TARGETS = ["Plonk.Props.C16"]
ASSUMPTIONS = ["G1/G2 compressed codecs of dusk-bls12_381 re-implemented in the model and compared on every case"]
THEOREMS_NOTE = "Plonk/Props/C16.lean"


def concat_progs(a, b):
    """source of program a followed by program b with b's register references shifted"""
    import re
    na = len(a.regs)
    return a.src() + ";" + re.sub(r"\$(\d+)", lambda m: "$%d" % (int(m.group(1)) + na), b.src())


def qm_short_circuit(ctx, rng):
    """all 15 key polynomials of full length except q_m, whose interpolant loses its top coefficient
    (one solved q_m coefficient): the circuit on which ProverKey::to_var_bytes used to truncate"""
    p = PProg()
    x = p.w(5); p.rangebits(4, x); y = p.w(9); p.logic("xor", 2, x, y)
    P = random_subgroup_point(rng); a, _ = p.pt(ext_of(P)); p.add(a, a)
    s = p.w(12345); p.mulgen(s, ext_of(GEN))
    src0 = p.src()
    out = ctx.model(["dump " + src0])[0]
    G = out.split(" W ")[0][2:].split("|")
    qm = [int(g.split(",")[0], 16) for g in G]
    gates = len(G) + 1
    n = 1
    while n < gates:
        n *= 2
    w = pow(7, (R - 1) // n, R)
    S = sum(q * pow(w, i, R) for i, q in enumerate(qm)) % R
    c = (-S * inv(pow(w, len(G), R))) % R
    return src0 + ";gate %s 0 0 0 0 0 - #0 #0 #0 #0" % hx(c), n


def hbytes(hexs):
    return "%x" % hash_list(list(bytes.fromhex(hexs)))


def run(ctx, broken):
    rng = SplitMix(ctx.seed * 1000003 + 16)
    r = LineRunner(ctx, "C16")
    srs = srs_draws(rng)
    x = int.from_bytes(bytes.fromhex(srs.split(" ")[0]), "little") % R
    progs = [("tiny", "w 5;bool #1", 16), ("pis", "pub 5;w 7;gadd 0 1 1 0 3 - $0 $1 #0;pub 9;bool #1", 16),
             ("sized-16", sized_program(rng, 16, (4, 15)).src(), 32), ("sized-17", sized_program(rng, 17, (16,)).src(), 32)]
    if ctx.tier != "quick":
        progs += [("sized-%d" % g, sized_program(rng, g, (4,)).src(), 2 * g + 16) for g in (9, 31, 33, 60, 64, 120)]
    cs = []
    # many public inputs, public inputs on rows >= 256 (two-byte row indexes), on the last row
    progs.append(("many-pis", sized_program(rng, 60, tuple(range(4, 44))).src(), 128))
    progs.append(("pi-rows-above-256", sized_program(rng, 300, (4, 257, 290, 299)).src(), 600))
    # circuits using exactly ONE of the custom widgets (its selector polynomial has full length, the others are empty), and pairs:
    # a codec that takes a length / offset of one key polynomial from another one is invisible when all are equal
    from props.c05 import raw_family_case
    fams = ["range", "logic", "var", "fixed"]
    for fam in fams:
        progs.append(("only-" + fam, raw_family_case(rng, fam, False, with_body=False).src(), 64))
    for i in range(len(fams)):
        for j in range(i + 1, len(fams)):
            if ctx.tier != "quick" or (i + j) % 2 == 1:
                a_, b_ = raw_family_case(rng, fams[i], False, with_body=False), raw_family_case(rng, fams[j], False, with_body=False)
                # second program's registers are shifted by the first one's
                progs.append(("only-%s+%s" % (fams[i], fams[j]), None, 64))
                progs[-1] = (progs[-1][0], concat_progs(a_, b_), 64)
    # (1) route flags: decoded prover proves identically, decoded verifier verifies (incl. the q_m-short circuit)
    qsrc, qn = qm_short_circuit(ctx, rng)
    draws = [draw_hex(rng) for _ in range(14)]
    cs.append({"line": prove_line(srs, qn + 16, b"c16", draws, 3, qsrc, routes=True), "tags": ["route-qm-short-circuit"], "expect_proof": True})
    for name, src, deg in progs:
        draws = [draw_hex(rng) for _ in range(14)]
        cs.append({"line": prove_line(srs, deg, b"c16", draws, 3, src, routes=True), "tags": ["route-" + name], "expect_proof": True})
    # (2) byte round trips of every encoding
    entries = ["%d %s %s || %s" % (deg, srs, b"c16".hex(), src) for (_, src, deg) in progs]
    p = subprocess.run([ctx.harness_bin(), "encodings"], input="\n".join(entries) + "\n", stdout=subprocess.PIPE, text=True)
    encs = [l.split(" ") for l in p.stdout.split("\n") if l]
    usecases = []
    for e in encs:
        kind, hx_ = e[0], e[1]
        if kind == "prover":
            cs.append({"line": "proverdec " + hx_, "tags": ["roundtrip-prover"], "expect_prefix": "ok h=" + hbytes(hx_)})
            usecases.append(hx_)
        elif kind == "verifier":
            cs.append({"line": "vroundtrip " + hx_, "tags": ["roundtrip-verifier"], "expect": "ok " + hx_})
        elif kind == "proof":
            cs.append({"line": "proofdec " + hx_, "tags": ["roundtrip-proof"], "expect": "ok " + hx_})
            # canonicity: accepted mutants re-encode to themselves
            for _ in range(40 if ctx.tier == "quick" else 1000):
                b = bytearray(bytes.fromhex(hx_)); i = rng.below(len(b) * 8); b[i // 8] ^= 1 << (i % 8)
                cs.append({"line": "proofdec " + b.hex(), "tags": ["proof-canonicity-bitflip"], "canon": b.hex()})
            # canonicity, systematically: every NON-CANONICAL spelling in every slot (scalars r + k for small and large k,
            # 2^256 - 1, 2^255; points with x >= p, flag combinations, non-canonical infinity): accepted => re-encodes to itself
            from props.c17 import g1_bad_points
            pb_ = bytes.fromhex(hx_)
            for slot in range(15):
                off = 528 + 32 * slot
                for kk in (0, 1, 5, 1 << 16, (1 << 32) - 2, (1 << 32) - 1, 1 << 40, 1 << 64, (1 << 256) - 1 - R, (1 << 255) - R):
                    v = R + kk
                    if v >= (1 << 256):
                        continue
                    m_ = bytearray(pb_); m_[off:off + 32] = v.to_bytes(32, "little")
                    cs.append({"line": "proofdec " + bytes(m_).hex(), "tags": ["proof-canonicity-scalar-slot"], "canon": bytes(m_).hex()})
            for slot in range(11):
                for tag_, enc_ in g1_bad_points():
                    m_ = bytearray(pb_); m_[48 * slot:48 * slot + 48] = enc_
                    cs.append({"line": "proofdec " + bytes(m_).hex(), "tags": ["proof-canonicity-point-slot"], "canon": bytes(m_).hex()})
        elif kind == "pp":
            cs.append({"line": "ppdec " + hx_, "tags": ["roundtrip-public-parameters"], "expect_prefix": "ok h=" + hbytes(hx_)})
        elif kind == "ppraw":
            ck = hx_[480:]
            cs.append({"line": "ckraw " + ck, "tags": ["roundtrip-commit-key-raw"], "expect_prefix": "ok h=" + hbytes(ck)})
    # (3) a decoded prover produces the same proof as the original from the same randomness
    for (name, src, deg), pb in zip(progs, usecases):
        draws = [draw_hex(rng) for _ in range(14)]
        cs.append({"line": "proveruse %x %s %s || %s" % (x, pb, ",".join(draws), src), "tags": ["decoded-prover-proves"],
                   "pair": prove_line(srs, deg, b"c16", draws, 3, src)})
    r.run(cs)
    # decoded prover == original prover (implementation only)
    pairs = [c for c in cs if "pair" in c]
    a = ctx.impl([c["line"] for c in pairs]); b = ctx.impl([c["pair"] for c in pairs])
    for c, o1, o2 in zip(pairs, a, b):
        p1 = parse_proof(o1).get("proof"); p2 = parse_proof(o2).get("proof")
        if not p1 or p1 != p2:
            ctx.violation("impl:decoded-prover-differs", {"kind": "implementation-vs-property", "why": "a prover decoded from its own "
                          "bytes produced a different proof from the same randomness", "requests": [c["line"][:300], c["pair"][:300]],
                          "outputs": [o1[:200], o2[:200]]})
            break
    # canonicity
    outs = ctx.impl([c["line"] for c in cs if "canon" in c])
    for c, o in zip([c for c in cs if "canon" in c], outs):
        if o.startswith("ok ") and o.split(" ")[1] != c["canon"]:
            ctx.violation("impl:proof-not-canonical", {"kind": "implementation-vs-property", "why": "the proof decoder accepted bytes "
                          "that re-encode differently", "request": c["line"], "impl_output": o})
            break
    st = r.report()
    st["rule"] = ("%d circuits (incl. one whose q_m interpolant loses its top coefficient while all other key polynomials keep full "
                  "length): prover / verifier / proof / public-parameter / raw-commit-key bytes -> decode -> re-encode must be "
                  "identical (impl and Lean model decoders); decoded prover proves byte-identically from the same RNG stream and "
                  "the decoded verifier accepts (route flags); proof canonicity on single-bit mutants of valid proofs and on every non-canonical spelling (scalars r + k, points with x >= p / flag combinations) in every slot." % (len(progs) + 1))
    return st
