"""C04 — a proof binds its statement: public inputs, circuit, label, version."""
from plib import *
from props.vcommon import *

LEAN_TARGETS = ["Plonk.Props.C04"]
ASSUMPTIONS = ["pairing decided in the trapdoor view", "sponge as a random oracle"]
TRUSTED = ["dusk-bls12_381 / merlin (re-implemented in the Lean model and compared on every request)"]
THEOREMS_NOTE = "Plonk/Props/C04.lean"


def run(ctx, broken):
    rng = SplitMix(ctx.seed * 1000003 + 4)
    r = VerifyRunner(ctx, "C04")
    cs = circuits(rng, 0 if ctx.tier == "quick" else 6)
    entries = []
    # same circuit under different labels (differing in one byte / in length), all cross-verified
    for (lname, lb) in labels():
        entries.append("x %s || %s" % (lb.hex() or "-", cs[0][1]))
    lines = r.emit("emitv", entries, ctx.seed, 0)
    # near-miss circuits under one label: public-input mutations, cross verification, version matrix
    entries = []
    for i, (name, src) in enumerate(cs):
        entries.append("%s 706c6f6e6b || %s" % ("pxv" if i < 3 or ctx.tier != "quick" else "px", src))
    lines += r.emit("emitv", entries, ctx.seed + 1, 0)
    lines += compensated_public_inputs(ctx, lines, 3)
    lines += verifier_header_variants(lines, 2)
    r.run(lines)
    st = r.report()
    st["rule"] = ("one circuit compiled under 6 labels (one byte changed, case, shorter, trailing NUL, empty) with every proof "
                  "shown to every other label's verifier; %d near-miss circuits (one selector, one wire, one gate more/fewer, "
                  "public-input row moved, extra public input, extra ZERO-valued public input) cross-verified with the proof's and with the other verifier's public inputs; per proof every public-input position set to "
                  "0/1/-v/v+1/random, neighbour swaps, all truncations, two extensions, rotation; V3 and V2 proofs against "
                  "V1/V2/V3 verifiers; the verifier's serialized header declaring another size / constraint count (+1, doubled, +2^16, +2^32, +2^33, +2^63). Expect error, never acceptance, never a panic; decision == Lean model verifier." % len(cs))
    return st
