"""C12 — curve-group components compute the JubJub group law."""
from plib import *
from props.builder import PProg
from props.common import ProgRunner

EXTRA_AUDITS = ["ComposerTie", "WidgetTie"]
LEAN_TARGETS = ["Plonk.Props.C12", "Plonk.Props.ComposerTie", "Plonk.Props.WidgetTie"]
ASSUMPTIONS = ["JubJub group structure (closure/associativity/order 8*r_J of the twisted Edwards law) is an explicit hypothesis "
               "structure of the scalar-multiplication theorems, not proved; its executable consequences are checked against "
               "native dusk-jubjub on every case",
               "prover success coincides with 'every row identity holds' outside explicit bad-challenge sets"]
TRUSTED = ["dusk-jubjub arithmetic (oracle for the group law in the differential check)"]
THEOREMS_NOTE = "Plonk/Props/C12.lean"


def point_pair(rng):
    P = random_subgroup_point(rng)
    k = rng.below(6)
    if k == 0:
        return (0, 1), P
    if k == 1:
        return P, ed_neg(P)
    if k == 2:
        return P, P
    if k == 3:
        return P, (0, 1)
    return P, random_subgroup_point(rng)


def scalar(rng):
    return rng.choice([0, 1, 2, RJ - 1, RJ, (1 << 252) - 1, rng.fe() % (1 << 252), rng.fe() % RJ, (1 << 252), R - 1])


def small_case(rng, kind):
    p = PProg(); p.tags = [kind]
    P, Q = point_pair(rng)
    a, _ = p.pt(ext_of(P, z=rng.choice([1, 1, 3, R - 1, rng.fe() or 1])))
    b, _ = p.pt(ext_of(Q))
    if kind in ("add", "sub"):
        o = p.add(a, b, kind)
        k = rng.below(3)
        if k == 1:   # forge the helper wire x1*y2 (allocated just before x3)
            base = o[0]
            p.op("setw #%d %s" % (p.nwit0 + 4 + (1 if kind == "sub" else 0), hx(rng.fe()))); p.unsat(); p.tags.append("forged-helper-x1y2")
        elif k == 2:
            p.setw(o[0], (p.val(o[0]) + 1) % R); p.unsat(); p.tags.append("forged-output")
    elif kind == "neg":
        o = p.neg(a)
        if rng.coin():
            p.setw(o[0], (p.val(o[0]) + 1) % R); p.unsat(); p.tags.append("forged-output")
    elif kind == "selid":
        bit = p.w(rng.choice([0, 1, 0, 1, 2, R - 1]))
        o = p.selid(bit, a)
        if p.val(bit) in (0, 1) and rng.coin(1, 3):
            p.setw(o[1], (p.val(o[1]) + 1) % R); p.unsat(); p.tags.append("forged-output")
        p.tags.append("boolean-bit" if p.val(bit) in (0, 1) else "non-boolean-bit")
    elif kind == "selpt":
        bit = p.w(rng.choice([0, 1]))
        o = p.selpt(bit, a, b)
    return p.case()


def alias_case(rng, i):
    """the SAME witness handles in several operand positions (sub p p, add p (neg p), doubling, select p p)"""
    p = PProg(); p.tags = ["shared-handles"]
    P = random_subgroup_point(rng) if i % 7 else (0, 1)
    a, _ = p.pt(ext_of(P))
    k = i % 8
    if k == 0: p.add(a, a); p.tags.append("add p p")
    elif k == 1: p.add(a, a, "sub"); p.tags.append("sub p p")
    elif k == 2: p.add(a, p.neg(a)); p.tags.append("add p (neg p)")
    elif k == 3: p.add(p.neg(a), a); p.tags.append("add (neg p) p")
    elif k == 4: p.add(p.neg(a), a, "sub"); p.tags.append("sub (neg p) p")
    elif k == 5: bit = p.w(rng.below(2)); p.selpt(bit, a, a); p.tags.append("select p p")
    elif k == 6: bit = p.w(rng.below(2)); p.add(a, p.selid(bit, a)); p.tags.append("add p (select_identity p)")
    else: n = p.neg(a); p.add(n, n, "sub"); p.tags.append("sub (neg p) (neg p)")
    return p.case()


def identity_handle_case(rng, i):
    """the composer's built-in handles as operands: Composer::IDENTITY = (#0, #1) as a point, #0 / #1 as bit or scalar"""
    p = PProg(); p.tags = ["constant-handle-operand"]
    ID = ("#0", "#1")
    P = random_subgroup_point(rng)
    a, _ = p.pt(ext_of(P))
    k = i % 12
    if k == 0: p.add(ID, a); p.tags.append("add IDENTITY p")
    elif k == 1: p.add(a, ID); p.tags.append("add p IDENTITY")
    elif k == 2: p.add(ID, a, "sub"); p.tags.append("sub IDENTITY p")
    elif k == 3: p.add(a, ID, "sub"); p.tags.append("sub p IDENTITY")
    elif k == 4: p.add(ID, ID); p.tags.append("add IDENTITY IDENTITY")
    elif k == 5: p.neg(ID); p.tags.append("neg IDENTITY")
    elif k == 6: p.selid(rng.choice(["#0", "#1"]), a); p.tags.append("select_identity const-bit p")
    elif k == 7: p.selid(p.w(rng.below(2)), ID); p.tags.append("select_identity bit IDENTITY")
    elif k == 8: p.selpt(rng.choice(["#0", "#1"]), a, ID); p.tags.append("select_point const-bit p IDENTITY")
    elif k == 9: p.selpt(p.w(rng.below(2)), ID, a); p.tags.append("select_point bit IDENTITY p")
    elif k == 10: p.mulpt(rng.choice(["#0", "#1"]), a); p.tags.append("mul_point const-scalar p")
    else: p.mulpt(p.w(rng.choice([0, 1, 5, rng.fe() % (1 << 252)])), ID); p.tags.append("mul_point s IDENTITY")
    return p.case()


def pole_case(rng, i):
    """raw (unvalidated) addends on which the addition law has a pole: d*x1*x2*y1*y2 = +1 or -1"""
    p = PProg(); p.tags = ["pole", "pole=%s" % ("+1" if i % 2 == 0 else "-1")]
    x1, y1, x2 = (rng.choice([2, 3, 5, rng.fe() or 1]) for _ in range(3))
    y2 = (1 if i % 2 == 0 else R - 1) * inv(D * x1 % R * y1 % R * x2 % R) % R
    a = (p.w(x1), p.w(y1)); b = (p.w(x2), p.w(y2))
    if i % 4 >= 2:
        a, b = b, a
    p.add(a, b, "addraw")
    return p.case()


def mul_case(rng):
    p = PProg(); p.tags = ["mulpt"]
    P = random_subgroup_point(rng) if rng.coin(3, 4) else (0, 1)
    a, _ = p.pt(ext_of(P))
    s = p.w(scalar(rng))
    o = p.mulpt(s, a)
    p.tags.append("scalar<2^252" if p.val(s) < (1 << 252) else "scalar>=2^252")
    return p.case()


def run(ctx, broken):
    rng = SplitMix(ctx.seed * 1000003 + 12)
    r = ProgRunner(ctx, "C12")
    n_small = 200 if ctx.tier == "quick" else 3000
    n_mul = 10 if ctx.tier == "quick" else 120
    kinds = ["add", "sub", "neg", "selid", "selpt", "add"]
    cs = [small_case(rng, kinds[i % len(kinds)]) for i in range(n_small)]
    cs += [mul_case(rng) for _ in range(n_mul)]
    cs += [alias_case(rng, i) for i in range(16 if ctx.tier == "quick" else 160)]
    cs += [pole_case(rng, i) for i in range(8 if ctx.tier == "quick" else 80)]
    cs += [identity_handle_case(rng, i) for i in range(24 if ctx.tier == "quick" else 120)]
    from props.c05 import cancel_cases
    cs += cancel_cases(rng, ("var",), 1 if ctx.tier == "quick" else 8)
    r.run(cs)
    st = r.report(broken)
    st["rule"] = ("pairs of subgroup points {identity, P/-P, P/P, P/identity, random}, Z-scaled extended inputs; add/sub/neg/"
                  "select_identity/select_point with forged helper wire x1*y2 or forged output (expect unsat), boolean and "
                  "non-boolean bits; the same witness handles in several operand positions (sub p p, add p (neg p), doubling, select p p); "
                  "raw addends at both poles d*x1*x2*y1*y2 = +-1 of the addition law; component_mul_point with scalars {0,1,2,r_J-1,r_J,2^252-1,2^252,r-1,random}. Each case: "
                  "layout/witness hashes impl vs model, returned coordinates vs the group law (Python oracle, independent "
                  "implementation), prove+verify vs model sysSat.")
    return st
