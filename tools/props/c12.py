"""C12 — curve-group components compute the JubJub group law."""
from plib import *
from props.builder import PProg
from props.common import ProgRunner

LEAN_TARGETS = ["Plonk.Props.C12"]
ASSUMPTIONS = ["JubJub group structure (closure/associativity/order 8*r_J of the twisted Edwards law) is an explicit hypothesis "
               "structure of the scalar-multiplication theorems, not proved; its executable consequences are checked against "
               "native dusk-jubjub on every case",
               "prover success coincides with 'every row identity holds' outside explicit bad-challenge sets"]
TRUSTED = ["dusk-jubjub arithmetic (oracle for the group law in the differential check)"]
THEOREMS_NOTE = "Plonk/Props/C12.lean"


def point_pair(rng):
    P = random_subgroup_point(rng)
    k = rng.below(6)
    if k == 0:
        return (0, 1), P
    if k == 1:
        return P, ed_neg(P)
    if k == 2:
        return P, P
    if k == 3:
        return P, (0, 1)
    return P, random_subgroup_point(rng)


def scalar(rng):
    return rng.choice([0, 1, 2, RJ - 1, RJ, (1 << 252) - 1, rng.fe() % (1 << 252), rng.fe() % RJ, (1 << 252), R - 1])


def small_case(rng, kind):
    p = PProg(); p.tags = [kind]
    P, Q = point_pair(rng)
    a, _ = p.pt(ext_of(P, z=rng.choice([1, 1, 3, R - 1, rng.fe() or 1])))
    b, _ = p.pt(ext_of(Q))
    if kind in ("add", "sub"):
        o = p.add(a, b, kind)
        k = rng.below(3)
        if k == 1:   # forge the helper wire x1*y2 (allocated just before x3)
            base = o[0]
            p.op("setw #%d %s" % (p.nwit0 + 4 + (1 if kind == "sub" else 0), hx(rng.fe()))); p.unsat(); p.tags.append("forged-helper-x1y2")
        elif k == 2:
            p.setw(o[0], (p.val(o[0]) + 1) % R); p.unsat(); p.tags.append("forged-output")
    elif kind == "neg":
        o = p.neg(a)
        if rng.coin():
            p.setw(o[0], (p.val(o[0]) + 1) % R); p.unsat(); p.tags.append("forged-output")
    elif kind == "selid":
        bit = p.w(rng.choice([0, 1, 0, 1, 2, R - 1]))
        o = p.selid(bit, a)
        if p.val(bit) in (0, 1) and rng.coin(1, 3):
            p.setw(o[1], (p.val(o[1]) + 1) % R); p.unsat(); p.tags.append("forged-output")
        p.tags.append("boolean-bit" if p.val(bit) in (0, 1) else "non-boolean-bit")
    elif kind == "selpt":
        bit = p.w(rng.choice([0, 1]))
        o = p.selpt(bit, a, b)
    return p.case()


def mul_case(rng):
    p = PProg(); p.tags = ["mulpt"]
    P = random_subgroup_point(rng) if rng.coin(3, 4) else (0, 1)
    a, _ = p.pt(ext_of(P))
    s = p.w(scalar(rng))
    o = p.mulpt(s, a)
    p.tags.append("scalar<2^252" if p.val(s) < (1 << 252) else "scalar>=2^252")
    return p.case()


def run(ctx, broken):
    rng = SplitMix(ctx.seed * 1000003 + 12)
    r = ProgRunner(ctx, "C12")
    n_small = 200 if ctx.tier == "quick" else 3000
    n_mul = 10 if ctx.tier == "quick" else 120
    kinds = ["add", "sub", "neg", "selid", "selpt", "add"]
    cs = [small_case(rng, kinds[i % len(kinds)]) for i in range(n_small)]
    cs += [mul_case(rng) for _ in range(n_mul)]
    from props.c05 import cancel_cases
    cs += cancel_cases(rng, ("var",), 1 if ctx.tier == "quick" else 8)
    r.run(cs)
    st = r.report(broken)
    st["rule"] = ("pairs of subgroup points {identity, P/-P, P/P, P/identity, random}, Z-scaled extended inputs; add/sub/neg/"
                  "select_identity/select_point with forged helper wire x1*y2 or forged output (expect unsat), boolean and "
                  "non-boolean bits; component_mul_point with scalars {0,1,2,r_J-1,r_J,2^252-1,2^252,r-1,random}. Each case: "
                  "layout/witness hashes impl vs model, returned coordinates vs the group law (Python oracle, independent "
                  "implementation), prove+verify vs model sysSat.")
    return st
