"""C13 — subgroup boundary: only prime-order subgroup points are admitted."""
from plib import *
from props.builder import PProg, in_subgroup
from props.common import ProgRunner

EXTRA_AUDITS = ["ComposerTie", "WidgetTie"]
LEAN_TARGETS = ["Plonk.Props.C13", "Plonk.Props.ComposerTie", "Plonk.Props.WidgetTie"]
PROFILE = "checked"
ASSUMPTIONS = ["JubJub group structure (order 8*r_J) as an explicit hypothesis of the 'P in [8]E <-> [r_J]P = O' corollary",
               "prover success coincides with 'every row identity holds' outside explicit bad-challenge sets"]
TRUSTED = ["dusk-jubjub arithmetic (is_on_curve / is_torsion_free / is_prime_order are modelled and compared)"]
THEOREMS_NOTE = "Plonk/Props/C13.lean"

T8 = None


def t8():
    global T8
    if T8 is None:
        T8 = torsion_point_order8()
    return T8


def coset_point(rng, k):
    P = random_subgroup_point(rng)
    T = ed_mul(k, t8()) if k else (0, 1)
    return ed_add(P, T) if k else P


def off_curve(rng):
    k = rng.below(4)
    if k == 0:
        return (0, 0)
    if k == 1:
        return (1, 1)
    return (rng.fe(), rng.fe())


def tf_case(rng, i):
    p = PProg(); p.tags = ["assert_torsion_free_point"]
    k = i % 10
    if k < 8:
        P = coset_point(rng, k); p.tags.append("coset-%d" % k)
    elif k == 8:
        P = (0, 1); p.tags.append("identity")
    else:
        P = off_curve(rng); p.tags.append("off-curve")
    a, _ = p.pt(ext_of(P))
    p.tf(a)
    return p.case()


def tfq_case(rng, i):
    p = PProg(); p.tags = ["torsion_free_gates-with-chosen-Q"]
    k = i % 6
    inv8 = pow(8, RJ - 2, RJ)
    if k == 0:      # honest
        P = random_subgroup_point(rng); Q = ed_mul(inv8, P); p.tags.append("Q-honest")
    elif k == 1:    # torsion translate of the honest Q: 8(Q+T) = P as well
        P = random_subgroup_point(rng); Q = ed_add(ed_mul(inv8, P), ed_mul(1 + rng.below(7), t8())); p.tags.append("Q-torsion-translate")
    elif k == 2:    # P outside the subgroup, Q any curve point with 8Q != P
        P = coset_point(rng, 1 + rng.below(7)); Q = random_curve_point(rng); p.tags.append("P-not-in-subgroup")
    elif k == 3:    # off-curve Q
        P = random_subgroup_point(rng); Q = off_curve(rng); p.tags.append("Q-off-curve")
    elif k == 4:    # P off curve, Q = identity (what the host picks)
        P = off_curve(rng); Q = (0, 1); p.tags.append("P-off-curve")
    else:           # P in 8E by construction: P = 8Q for a random curve point Q (not nec. subgroup Q)
        Q = random_curve_point(rng); P = ed_mul(8, Q); p.tags.append("P=8Q")
    a, _ = p.pt(ext_of(P))
    p.tfq(a, Q)
    return p.case()


def host_case(rng, i):
    """append_constant_point / mul_generator generator check / zero-Z on every entry point"""
    p = PProg(); p.tags = ["host-validation"]
    k = i % 9
    P = random_subgroup_point(rng)
    z = rng.choice([1, 2, R - 1, rng.fe() or 1])
    if k == 0:
        o, e = p.cpt(ext_of(P, z=z)); p.tags.append("cpt-ok")
    elif k == 1:
        o, e = p.cpt(ext_of(coset_point(rng, 1 + rng.below(7)), z=z)); p.tags.append("cpt-torsion")
    elif k == 2:
        o, e = p.cpt(ext_of(off_curve(rng), z=z)); p.tags.append("cpt-off-curve")
    elif k == 3:
        e0 = ext_of(P, z=z)
        o, e = p.cpt((e0[0], e0[1], e0[2], e0[3], (e0[4] + 1) % R)); p.tags.append("cpt-inconsistent-T")
    elif k == 4:
        o, e = p.cpt((rng.fe(), rng.fe(), 0, rng.fe(), rng.fe())); p.tags.append("cpt-zero-Z")
    elif k == 5:
        op = rng.choice(["pt", "ppt"])
        o, e = p.pt((rng.fe(), rng.fe(), 0, 1, 1), op); p.tags.append(op + "-zero-Z")
    elif k == 6:
        s = p.w(rng.fe() % RJ)
        G = rng.choice([(0, 1), coset_point(rng, 1 + rng.below(7)), off_curve(rng), ed_mul(rng.below(8), t8())])
        o, e = p.mulgen(s, ext_of(G, z=z)); p.tags.append("mulgen-bad-generator")
    elif k == 7:
        s = p.w(rng.fe() % RJ)
        o, e = p.mulgen(s, (rng.fe(), rng.fe(), 0, 1, 1)); p.tags.append("mulgen-zero-Z")
    else:
        a, _ = p.pt(ext_of(P))
        p.op("aeqppt %s %s" % (p.refs(a), ext_str((rng.fe(), rng.fe(), 0, 1, 1)))); p.tags.append("aeqppt-zero-Z")
        e = 1
    c = p.case()
    c["want_err"] = e
    c["cmd"] = "shape" if k in (6, 7) else "prog"
    return c


def run(ctx, broken):
    rng = SplitMix(ctx.seed * 1000003 + 13)
    r = ProgRunner(ctx, "C13")
    n = 40 if ctx.tier == "quick" else 600
    cs = [tf_case(rng, i) for i in range(n)] + [tfq_case(rng, i) for i in range(n)]
    hs = [host_case(rng, i) for i in range(n)]
    # SYSTEMATIC zero-Z representations on EVERY point entry point: all-zero, (0,1,0,..), (0,0,0,1,1), generator numerators
    # with Z = 0, random numerators — each must be refused with the degenerate-point error (never a panic, never a point)
    Pg = random_subgroup_point(rng)
    zreps = [(0, 0, 0, 0, 0), (0, 1, 0, 0, 0), (0, 0, 0, 1, 1), (0, 1, 0, 0, 1), (Pg[0], Pg[1], 0, Pg[0], Pg[1]),
             (rng.fe(), rng.fe(), 0, rng.fe(), rng.fe()), (1, 1, 0, 1, 1), (0, R - 1, 0, 0, 0)]
    for ze in zreps:
        for ep in ("cpt", "pt", "ppt", "mulgen", "aeqppt"):
            p = PProg(); p.tags = ["host-validation", ep + "-zero-Z-systematic"]
            if ep == "cpt":
                o, e = p.cpt(ze)
            elif ep in ("pt", "ppt"):
                o, e = p.pt(ze, ep)
            elif ep == "mulgen":
                sc_ = p.w(rng.fe() % RJ); o, e = p.mulgen(sc_, ze)
            else:
                a, _ = p.pt(ext_of(Pg)); p.op("aeqppt %s %s" % (p.refs(a), ext_str(ze))); e = 1
            # the documented error of the entry point (the generator check reports its own kind also for a zero Z)
            c = p.case(); c["want_err"] = e; c["cmd"] = "shape" if ep == "mulgen" else "prog"
            hs.append(c)
    r.run(cs + hs)
    # host-side decisions: the error kind reported by the implementation must be the documented one
    lines = ["shape " + c["src"] for c in hs]
    outs = ctx.impl(lines)
    from props.common import parse
    for c, o in zip(hs, outs):
        d = parse(o)
        errs = d.get("errs", "[]").strip("[]")
        got = int(errs.split(":")[1]) if errs else 0
        if d["_kind"] != "ok" or got != c["want_err"]:
            ctx.violation("impl:host-validation:" + c["tags"][-1], {
                "kind": "implementation-vs-property", "why": "host-side point validation returned error kind %s, property says %s "
                "(0 ok, 1 zero-Z, 2 not torsion free/off curve, 3 generator not prime order)" % (got, c["want_err"]),
                "request": "shape " + c["src"], "impl_output": o})
            break
    st = r.report(broken)
    st["rule"] = ("assert_torsion_free_point on the 8 torsion cosets P+kT (T of exact order 8), identity, off-curve pairs incl. (0,0); "
                  "the gate seam with prover-chosen Q: honest, torsion translates, off-curve, P=8Q for arbitrary curve Q, P outside "
                  "the subgroup; host validation: append_constant_point / mul_generator generator / zero-Z on every entry point, "
                  "inconsistent T1*T2; debug-assertions build. Each case: layout/witness hashes impl vs model, error kind vs the "
                  "property (Python oracle), prove+verify vs model sysSat and vs subgroup membership (Python oracle).")
    return st
