"""C03 — the verifier decides exactly the protocol's equation and transcript."""
from plib import *
from props.vcommon import *

LEAN_TARGETS = ["Plonk.Props.C03", "Plonk.Props.WidgetTie", "Plonk.Props.G1Law"]
EXTRA_AUDITS = ['G1Law']
ASSUMPTIONS = ["pairing decided in the trapdoor view (bilinearity/non-degeneracy assumed; x known because the SRS RNG is scripted)",
               "Keccak/STROBE sponge treated as a random oracle: different framed operation lists give unrelated challenges"]
TRUSTED = ["dusk-bls12_381 / merlin (re-implemented in the Lean model and compared on every request)"]
THEOREMS_NOTE = "Plonk/Props/C03.lean"


def run(ctx, broken):
    rng = SplitMix(ctx.seed * 1000003 + 3)
    r = VerifyRunner(ctx, "C03")
    cs = circuits(rng, 1 if ctx.tier == "quick" else 8)
    lab = "706c6f6e6b"
    entries = []
    for i, (name, src) in enumerate(cs):
        mode = "fx" if i % 3 else "bfx"
        if i == 0:
            mode = "bfxs"
        entries.append("%s %s || %s" % (mode, lab, src))
    budget = 150 if ctx.tier == "quick" else 8064
    lines = r.emit("emitv", entries, ctx.seed, budget)
    challenge_correspondence(ctx, lines)
    lines += shifted_openings(ctx, lines)
    lines += unbound_key_commitments(ctx, lines)
    lines += compensated_public_inputs(ctx, lines)
    lines += verifier_header_variants(lines, 1)
    lines += uncovered_evaluations(ctx, rng, 1 if ctx.tier == "quick" else 2)
    r.run(lines)
    st = r.report()
    st["rule"] = ("honest V3 proofs of %d circuits (arithmetic with public inputs, near-miss variants, gadgets, curve points, full "
                  "domain); per proof: %d single-bit flips of the 1008 proof bytes (all 8064 in thorough), every commitment "
                  "replaced by generator / identity / another commitment, every evaluation by 0 / 1 / another evaluation, the "
                  "all-identity all-zero proof, field-wise splices, every proof against every other circuit's verifier; opening commitments shifted by "
                  "multiples of G chosen with the batching challenge u (accepted only if u does not bind them). Real "
                  "verifier decision vs the Lean model verifier (Merlin transcript recomputed from bytes, regrouped MSM, "
                  "trapdoor pairing); accepted proofs re-checked against the textbook equation." % (len(cs), budget))
    return st
