#!/usr/bin/env python3
"""Translator: the straight-line field arithmetic of the widget sources of /repo  ->  Lean definitions over a commutative ring.

  python3 tools/rs2lean.py /repo /verif/lean/Plonk/GeneratedWidgets.lean

Every run of every check regenerates the file; the theorems of Plonk/Proofs/WidgetSource.lean are then re-checked against
what the source says NOW: they state that each translated function equals the formula the model (and the theorems about
the model) use. Supported subset (anything else aborts loudly -> the tie is reported broken):

  fn NAME(params) -> T { let [mut] x[: T] = EXPR; ... ; [scalars.push(EXPR); points.push(EXPR);]* [EXPR] }
  EXPR ::= literal | ident | path::ident | EXPR.field | EXPR.N | EXPR[ident] | EXPR.square() | EXPR.double()
         | f(EXPR, ...) | BlsScalar::from(N) | BlsScalar::one() | BlsScalar::zero() | &EXPR | *EXPR | -EXPR
         | EXPR (+|-|*) EXPR | (EXPR)

Identifiers that are not let-bound become parameters of type `A` (sorted by name); `self.q_range.1[index]` becomes the
parameter `self_q_range_1_index`, `evaluations.c_eval` becomes `evaluations_c_eval`, `EDWARDS_D` stays `EDWARDS_D`.
Scalars and polynomials are both elements of one commutative ring `A` (a polynomial ring with the scalars embedded),
which is sound for the ring identities proved about them.
"""
import re, sys, os

WIDGET = "src/proof_system/widget"
# (lean name, file, rust fn name, occurrence index of that fn name in the file)
TARGETS = [
    ("range_delta", "range/proverkey.rs", "delta", 0),
    ("range_quotient_i", "range/proverkey.rs", "compute_quotient_i", 0),
    ("range_linearization", "range/proverkey.rs", "compute_linearization", 0),
    ("range_verifier", "range/verifierkey.rs", "compute_linearization_commitment", 0),
    ("logic_delta", "logic/proverkey.rs", "delta", 0),
    ("logic_delta_xor_and", "logic/proverkey.rs", "delta_xor_and", 0),
    ("logic_quotient_i", "logic/proverkey.rs", "compute_quotient_i", 0),
    ("logic_linearization", "logic/proverkey.rs", "compute_linearization", 0),
    ("logic_verifier", "logic/verifierkey.rs", "compute_linearization_commitment", 0),
    ("arith_quotient_i", "arithmetic/proverkey.rs", "compute_quotient_i", 0),
    ("arith_linearization", "arithmetic/proverkey.rs", "compute_linearization", 0),
    ("arith_verifier", "arithmetic/verifierkey.rs", "compute_linearization_commitment", 0),
    ("fixed_extract_bit", "ecc/scalar_mul/fixed_base/proverkey.rs", "extract_bit", 0),
    ("fixed_check_bit_consistency", "ecc/scalar_mul/fixed_base/proverkey.rs", "check_bit_consistency", 0),
    ("fixed_quotient_i", "ecc/scalar_mul/fixed_base/proverkey.rs", "compute_quotient_i", 0),
    ("fixed_linearization", "ecc/scalar_mul/fixed_base/proverkey.rs", "compute_linearization", 0),
    ("fixed_verifier", "ecc/scalar_mul/fixed_base/verifierkey.rs", "compute_linearization_commitment", 0),
    ("var_quotient_i", "ecc/curve_addition/proverkey.rs", "compute_quotient_i", 0),
    ("var_linearization", "ecc/curve_addition/proverkey.rs", "compute_linearization", 0),
    ("var_verifier", "ecc/curve_addition/verifierkey.rs", "compute_linearization_commitment", 0),
    ("perm_quotient_identity_i", "permutation/proverkey.rs", "compute_quotient_identity_range_check_i", 0),
    ("perm_quotient_copy_i", "permutation/proverkey.rs", "compute_quotient_copy_range_check_i", 0),
    ("perm_quotient_one_i", "permutation/proverkey.rs", "compute_quotient_term_check_one_i", 0),
    ("perm_quotient_i", "permutation/proverkey.rs", "compute_quotient_i", 0),
    ("perm_linearizer_identity", "permutation/proverkey.rs", "compute_linearizer_identity_range_check", 0),
    ("perm_linearizer_copy", "permutation/proverkey.rs", "compute_linearizer_copy_range_check", 0),
    ("perm_verifier", "permutation/verifierkey.rs", "compute_linearization_commitment", 0),
    # proof.rs: the quotient terms of [D] (and the ORDER of the widget calls), r_0 of both verification routes
    ("verify_lin_terms", "../proof.rs", "append_linearization_commitment_terms", 0),
    ("verify_r0", "../proof.rs", "verify", 0, "r_0_eval"),
    ("verify_legacy_r0", "../proof.rs", "verify_legacy", 0, "r_0_eval"),
]
# calls to these Rust functions are translated to calls of the Lean translation of the named target
CALLS = {
    "range": {"delta": "range_delta"},
    "logic": {"delta": "logic_delta", "delta_xor_and": "logic_delta_xor_and"},
    "fixed": {"extract_bit": "fixed_extract_bit", "check_bit_consistency": "fixed_check_bit_consistency"},
    "arith": {}, "var": {},
    "verify": {},
    "perm": {"compute_quotient_identity_range_check_i": "perm_quotient_identity_i",
             "compute_quotient_copy_range_check_i": "perm_quotient_copy_i",
             "compute_quotient_term_check_one_i": "perm_quotient_one_i"},
}
# free identifiers (beyond the Rust parameters) of translated helper functions: passed along at every call site
HELPER_EXTRA = {}
IGNORED_PARAMS = {"self", "index", "scalars", "points"}


class TranslateError(Exception):
    pass


def strip_comments(src):
    src = re.sub(r"/\*.*?\*/", " ", src, flags=re.S)
    return re.sub(r"//[^\n]*", " ", src)


def find_fn(src, name, occ):
    ms = [m for m in re.finditer(r"\bfn\s+%s\s*(<[^>]*>)?\s*\(" % re.escape(name), src)]
    if len(ms) <= occ:
        raise TranslateError("function %s (occurrence %d) not found" % (name, occ))
    m = ms[occ]
    i = m.end() - 1
    depth, j = 0, i
    while True:
        if src[j] == "(":
            depth += 1
        elif src[j] == ")":
            depth -= 1
            if depth == 0:
                break
        j += 1
    params = src[i + 1:j]
    k = src.index("{", j)
    depth, e = 0, k
    while True:
        if src[e] == "{":
            depth += 1
        elif src[e] == "}":
            depth -= 1
            if depth == 0:
                break
        e += 1
    return params, src[k + 1:e]


TOK = re.compile(r"\s*(?:(\d+)|([A-Za-z_][A-Za-z0-9_]*)|(::|[-+*&().,\[\]]))")


def tokenize(s):
    out, i = [], 0
    s = s.strip()
    while i < len(s):
        m = TOK.match(s, i)
        if not m:
            raise TranslateError("cannot tokenize: %r" % s[i:i + 40])
        if m.group(1):
            out.append(("num", m.group(1)))
        elif m.group(2):
            out.append(("id", m.group(2)))
        else:
            out.append(("op", m.group(3)))
        i = m.end()
    return out


class Parser:
    """Pratt parser producing Lean text; collects free identifiers"""
    def __init__(self, toks, calls, bound, free):
        self.t, self.i, self.calls, self.bound, self.free = toks, 0, calls, bound, free

    def peek(self):
        return self.t[self.i] if self.i < len(self.t) else ("eof", "")

    def eat(self, kind=None, val=None):
        k, v = self.peek()
        if (kind and k != kind) or (val and v != val):
            raise TranslateError("expected %s %s, got %s %s" % (kind, val, k, v))
        self.i += 1
        return v

    def ident(self, name):
        if name not in self.bound and name not in self.free:
            self.free.append(name)
        return name

    def expr(self, prec=0):
        lhs = self.unary()
        while True:
            k, v = self.peek()
            if k == "op" and v in ("+", "-") and prec <= 1:
                self.eat()
                rhs = self.expr(2)
                lhs = "(%s %s %s)" % (lhs, v, rhs)
            elif k == "op" and v == "*" and prec <= 2:
                self.eat()
                rhs = self.expr(3)
                lhs = "(%s * %s)" % (lhs, rhs)
            else:
                return lhs

    def unary(self):
        k, v = self.peek()
        if k == "op" and v in ("&", "*"):
            self.eat()
            return self.unary()
        if k == "op" and v == "-":
            self.eat()
            return "(-%s)" % self.unary()
        return self.postfix(self.atom())

    def atom(self):
        k, v = self.peek()
        if k == "num":
            self.eat()
            return "(%s : A)" % v
        if k == "op" and v == "(":
            self.eat()
            e = self.expr()
            self.eat("op", ")")
            return e
        if k == "id":
            self.eat()
            path = [v]
            while self.peek() == ("op", "::"):
                self.eat()
                path.append(self.eat("id"))
            if self.peek() == ("op", "("):      # call
                self.eat()
                args = []
                while self.peek() != ("op", ")"):
                    args.append(self.expr())
                    if self.peek() == ("op", ","):
                        self.eat()
                self.eat("op", ")")
                full = "::".join(path)
                if full == "BlsScalar::from":
                    if not re.fullmatch(r"\(\d+ : A\)", args[0]):
                        raise TranslateError("BlsScalar::from of a non-literal")
                    return args[0]
                if full == "BlsScalar::one":
                    return "(1 : A)"
                if full == "BlsScalar::zero":
                    return "(0 : A)"
                if len(path) == 1 and path[0] in self.calls:
                    return self.call(path[0], args)
                raise TranslateError("unsupported call %s" % full)
            if len(path) > 1:
                raise TranslateError("unsupported path %s" % "::".join(path))
            return ("ID", v)
        raise TranslateError("unexpected token %s %s" % (k, v))

    def call(self, rust_name, args):
        tgt = self.calls[rust_name]
        extras = HELPER_EXTRA.get(tgt, [])
        for x in extras:
            self.ident(x)
        args = [a for a in args if a != "index"]
        return "(%s %s)" % (tgt, " ".join(list(extras) + args))

    def postfix(self, e):
        # e is Lean text, or ("ID", name) for a (possibly dotted) place expression still being assembled
        while True:
            k, v = self.peek()
            if k == "op" and v == ".":
                self.eat()
                k2, v2 = self.peek()
                self.eat()
                if k2 == "id" and self.peek() == ("op", "(") and e == ("ID", "self") and v2 in self.calls:
                    self.eat()
                    args = []
                    while self.peek() != ("op", ")"):
                        k3, v3 = self.peek()
                        if (k3, v3) == ("id", "index"):
                            self.eat(); args.append("index")
                        else:
                            args.append(self.expr())
                        if self.peek() == ("op", ","):
                            self.eat()
                    self.eat("op", ")")
                    e = self.call(v2, args)
                elif k2 == "id" and self.peek() == ("op", "("):
                    self.eat()
                    self.eat("op", ")")
                    base = self.place(e)
                    if v2 == "square":
                        e = "(%s * %s)" % (base, base)
                    elif v2 == "double":
                        e = "(%s + %s)" % (base, base)
                    elif v2 in ("clone", "into"):
                        e = base
                    else:
                        raise TranslateError("unsupported method .%s()" % v2)
                elif k2 in ("id", "num"):
                    if not isinstance(e, tuple):
                        raise TranslateError("field access on a computed value")
                    e = ("ID", e[1] + "_" + v2)
                else:
                    raise TranslateError("bad field access")
            elif k == "op" and v == "[":
                self.eat()
                idx = self.eat("id")
                self.eat("op", "]")
                if not isinstance(e, tuple):
                    raise TranslateError("index on a computed value")
                e = ("ID", e[1] + "_" + idx)
            else:
                return self.place(e)

    def place(self, e):
        if isinstance(e, tuple):
            return self.ident(e[1])
        return e


NEEDS_D = set()
CALL_ORDER = {}


def split_statements(body):
    out, depth, cur = [], 0, ""
    for ch in body:
        if ch in "([{":
            depth += 1
        elif ch in ")]}":
            depth -= 1
        if ch == ";" and depth == 0:
            out.append(cur.strip())
            cur = ""
        else:
            cur += ch
    if cur.strip():
        out.append(cur.strip() + " @RET")
    return [s for s in out if s]


def split_params(params):
    out, depth, cur = [], 0, ""
    for ch in params:
        if ch in "(<[":
            depth += 1
        elif ch in ")>]":
            depth -= 1
        if ch == "," and depth == 0:
            out.append(cur); cur = ""
        else:
            cur += ch
    out.append(cur)
    return [x.strip() for x in out if x.strip()]


def parse_rhs(lean_name, rhs, calls, bound, free):
    """expression or block expression `{ stmts; expr }` -> Lean text"""
    rhs = rhs.strip()
    if rhs.startswith("{") and rhs.endswith("}"):
        inner_bound = set(bound)
        lets, ret = [], None
        for st in split_statements(rhs[1:-1]):
            is_ret = st.endswith("@RET")
            if is_ret:
                st = st[:-4].strip()
            m = re.match(r"let\s+(mut\s+)?([A-Za-z_][A-Za-z0-9_]*)\s*(:[^=]+)?=\s*(.*)$", st, flags=re.S)
            if m:
                lets.append((m.group(2), parse_rhs(lean_name, m.group(4), calls, inner_bound, free)))
                inner_bound.add(m.group(2))
            elif is_ret:
                ret = parse_rhs(lean_name, st, calls, inner_bound, free)
            else:
                raise TranslateError("%s: unsupported statement in block `%s`" % (lean_name, st[:60]))
        if ret is None:
            raise TranslateError("%s: block without a value" % lean_name)
        return "(" + "".join("let %s := %s; " % (n, e) for n, e in lets) + ret + ")"
    p = Parser(tokenize(rhs), calls, bound, free)
    e = p.expr()
    if p.peek()[0] != "eof":
        raise TranslateError("%s: trailing tokens in `%s`" % (lean_name, rhs[:60]))
    return e


def translate_fn(lean_name, params, body, calls):
    pnames = []
    for p in split_params(params):
        if p in ("&self", "self", "&mut self"):
            continue
        pat = p.split(":")[0].strip()
        if pat.startswith("("):                       # tuple pattern (alpha, beta, gamma): (&T, &T, &T)
            pnames += [x.strip() for x in pat.strip("()").split(",") if x.strip()]
            continue
        nm = re.sub(r"^mut\s+", "", pat)
        pnames.append(nm)
    bound, free, lets, pushes, ret = set(), [], [], [], None
    for st in split_statements(body):
        st = re.sub(r"#\[[^\]]*\]", " ", st).strip()
        is_ret = st.endswith("@RET")
        if is_ret:
            st = st[:-4].strip()
        m = re.match(r"let\s+(mut\s+)?([A-Za-z_][A-Za-z0-9_]*)\s*(:[^=]+)?=\s*(.*)$", st, flags=re.S)
        if m:
            name, rhs = m.group(2), m.group(4)
            e = parse_rhs(lean_name, rhs, calls, bound, free)
            lets.append((name, e))
            bound.add(name)
            continue
        m = re.match(r"([A-Za-z_][A-Za-z0-9_]*)\s*([-+*])=\s*(.*)$", st, flags=re.S)
        if m and m.group(1) in bound:            # compound assignment x op= e   ==>   let x := x op e
            e = parse_rhs(lean_name, m.group(3), calls, bound, free)
            lets.append((m.group(1), "(%s %s %s)" % (m.group(1), m.group(2), e)))
            continue
        m = re.match(r"([A-Za-z_][A-Za-z0-9_]*)\s*=\s*(.*)$", st, flags=re.S)
        if m and m.group(1) in bound:            # re-assignment of a `let mut` variable = shadowing
            p = Parser(tokenize(m.group(2)), calls, bound, free)
            e = p.expr()
            if p.peek()[0] != "eof":
                raise TranslateError("%s: trailing tokens in `%s`" % (lean_name, st[:60]))
            lets.append((m.group(1), e))
            continue
        m = re.match(r"(scalars|points)\s*\.\s*push\s*\((.*)\)$", st, flags=re.S)
        if m:
            p = Parser(tokenize(m.group(2).strip().rstrip(",")), calls, bound, free)
            e = p.expr()
            if p.peek()[0] != "eof":
                raise TranslateError("%s: trailing tokens in `%s`" % (lean_name, st[:60]))
            pushes.append((m.group(1), e))
            continue
        m = re.match(r"([a-z_]+)\s*\.\s*([a-z_]+)\s*\.\s*compute_linearization_commitment\s*\(", st)
        if m and not is_ret:                      # a widget call: only its position in the sequence is recorded
            if pushes:
                raise TranslateError("%s: widget call after the first push" % lean_name)
            CALL_ORDER.setdefault(lean_name, []).append(m.group(2))
            continue
        if is_ret:
            p = Parser(tokenize(st), calls, bound, free)
            ret = p.expr()
            if p.peek()[0] != "eof":
                raise TranslateError("%s: trailing tokens in `%s`" % (lean_name, st[:60]))
            continue
        raise TranslateError("%s: unsupported statement `%s`" % (lean_name, st[:80]))
    # shadowed lets: Lean `let` shadows like Rust, fine. parameters: declared params that are used + other free identifiers
    used = [f for f in free]
    params_out = sorted(set(used))
    for ig in IGNORED_PARAMS:
        if ig in params_out:
            raise TranslateError("%s: `%s` used as a value" % (lean_name, ig))
    if "EDWARDS_D" in params_out:
        NEEDS_D.add(lean_name)
        params_out.remove("EDWARDS_D")
        params_out = ["EDWARDS_D"] + params_out
    # positional parameters only for helper functions (called from translated code): keep the Rust order
    helper = lean_name in {v for d in CALLS.values() for v in d.values()}
    if helper:
        order = [p for p in pnames if p not in IGNORED_PARAMS]          # every Rust parameter, in Rust order
        extras = [p for p in params_out if p not in order]
        HELPER_EXTRA[lean_name] = extras
        params_out = extras + order
    sig = " ".join("(%s : A)" % p for p in params_out)
    lines = []
    if pushes:
        sc = [e for k, e in pushes if k == "scalars"]
        pt = [e for k, e in pushes if k == "points"]
        if len(sc) != len(pt):
            raise TranslateError("%s: scalars/points pushes are not paired" % lean_name)
        # a commitment name is an opaque label
        lines.append("def %s %s : List (A × String) :=" % (lean_name, sig))
        for name, e in lets:
            lines.append("  let %s := %s" % (name, e))
        items = ", ".join('(%s, "%s")' % (s, p) for s, p in zip(sc, [re.sub(r"[()]", "", x) for x in pt]))
        lines.append("  [%s]" % items)
        # point labels are identifiers that were recorded as free: drop them from the parameter list
        labels = set(re.sub(r"[()]", "", x) for x in pt)
        params_out = [p for p in params_out if p not in labels]
        sig = " ".join("(%s : A)" % p for p in params_out)
        lines[0] = "def %s %s : List (A × String) :=" % (lean_name, sig)
    else:
        if ret is None:
            raise TranslateError("%s: no result expression" % lean_name)
        lines.append("def %s %s : A :=" % (lean_name, sig))
        for name, e in lets:
            lines.append("  let %s := %s" % (name, e))
        lines.append("  %s" % ret)
    return "\n".join(lines), params_out


def main():
    repo, out = sys.argv[1], sys.argv[2]
    chunks, sigs = [], []
    for tgt in TARGETS:
        (lean_name, rel, fn, occ) = tgt[:4]
        path = os.path.normpath(os.path.join(repo, WIDGET, rel))
        src = strip_comments(open(path).read())
        params, body = find_fn(src, fn, occ)
        if len(tgt) == 5:        # a single `let NAME = EXPR;` of that function
            sts = [x for x in split_statements(body) if re.match(r"let\s+(mut\s+)?%s\b" % tgt[4], x)]
            if len(sts) != 1:
                raise TranslateError("%s: expected exactly one `let %s` in %s" % (lean_name, tgt[4], fn))
            body = sts[0].split("=", 1)[1].replace("@RET", "")
            params = ""
        text, ps = translate_fn(lean_name, params, body, CALLS[lean_name.split("_")[0]])
        if lean_name in CALL_ORDER:
            text += "\n\n/-- the widget calls of `%s`, in source order -/\ndef %s_calls : List String := [%s]" % (
                fn, lean_name, ", ".join('"%s"' % c for c in CALL_ORDER[lean_name]))
        chunks.append("/-- `%s::%s` (%s) -/\n%s" % (rel, fn, WIDGET, text))
        sigs.append("-- %s : %s" % (lean_name, " ".join(ps)))
    hdr = ("/- GENERATED by tools/rs2lean.py from %s/*/{proverkey,verifierkey}.rs of /repo — do not edit.\n"
           "   Straight-line field arithmetic of every gate widget (prover quotient term, prover linearisation term,\n"
           "   verifier linearisation scalars) as definitions over a commutative ring. -/\n"
           "import Mathlib.Algebra.Ring.Defs\n\nnamespace Plonk.GeneratedWidgets\nvariable {A : Type} [CommRing A]\n\n" % WIDGET)
    text = hdr + "\n\n".join(chunks) + "\n\n" + "\n".join(sigs) + "\n\nend Plonk.GeneratedWidgets\n"
    old = open(out).read() if os.path.exists(out) else None
    if old != text:
        with open(out, "w") as f:
            f.write(text)
    print("rs2lean: %d functions -> %s%s" % (len(TARGETS), out, "" if old != text else " (unchanged)"))


if __name__ == "__main__":
    try:
        main()
    except TranslateError as e:
        print("rs2lean: TRANSLATION FAILED: %s" % e)
        sys.exit(3)
