#!/usr/bin/env python3
"""sensitivity test of the prover tie (tools/rs2lean_prover.py + Plonk/Props/ProverTie.lean): for each small mutation of a
SCRATCH COPY of /repo/src (never /repo itself) regenerate and build; every mutation must make the translator abort or the
build fail; finally regenerate from /repo and build (must pass).

  python3 tools/rs2lean_prover_sensitivity.py all            # or a list of mutation ids
Results: evidence/prover-tie-sensitivity.json"""
import os, re, shutil, subprocess, sys, time, json, tempfile

VERIF = os.path.dirname(os.path.dirname(os.path.abspath(__file__)))
MUT = os.path.join(tempfile.gettempdir(), "rs2lean-prover-mut-%d" % os.getpid())
Q = "src/proof_system/quotient_poly.rs"
L = "src/proof_system/linearization_poly.rs"
P = "src/composer/permutation.rs"
PR = "src/compiler/prover.rs"

# (id, file, old text (must occur exactly `count` times), new text, count, description)
MUTS = [
    ("M01-range-dw-not-shifted", Q, "let d_w = &d_eval_8n[i + 8];", "let d_w = &d_eval_8n[i];", 1,
     "next-row index dropped for d_w"),
    ("M02-swap-range-logic-challenge", Q,
     "(\n            range_challenge,\n            logic_challenge,\n            fixed_base_challenge,\n            var_base_challenge,\n        ),\n        prover_key,",
     "(\n            logic_challenge,\n            range_challenge,\n            fixed_base_challenge,\n            var_base_challenge,\n        ),\n        prover_key,", 1,
     "call site in `compute` passes (logic, range) for (range, logic)"),
    ("M03-drop-pi", Q, "t_arith + t_range + t_logic + t_fixed + t_var + pi", "t_arith + t_range + t_logic + t_fixed + t_var", 1,
     "public-input term dropped from the gate sum"),
    ("M04-and-3", Q, "vanishing_coset_inverses[i & 7]", "vanishing_coset_inverses[i & 3]", 1, "`i & 7` -> `i & 3`"),
    ("M05-len-rule-6", Q, "quotient_poly.len() > 7 * (quotient_domain.size() / 8)", "quotient_poly.len() > 6 * (quotient_domain.size() / 8)", 1,
     "`7 *` -> `6 *` in the rejection rule"),
    ("M06-perm-wrong-K", P, "let b = wires[1][i] + beta_root * K1 + gamma;", "let b = wires[1][i] + beta_root * K2 + gamma;", 1,
     "wire b paired with K2 in the accumulator numerator"),
    ("M07-aw-eval-at-z", PR, "let a_w_eval = a_poly.evaluate(&(z_challenge * domain.group_gen));", "let a_w_eval = a_poly.evaluate(&z_challenge);", 1,
     "a_w_eval opened at z instead of z·ω"),
    ("M08-lin-tmid-z2n", L, "let b = t_mid_poly * &z_n;", "let b = t_mid_poly * &z_two_n;", 1, "t_mid multiplied by z^{2n}"),
    ("M09-perm-product-guard", P, "if i + 1 < n {", "if i < n {", 1, "accumulator guard `i + 1 < n` -> `i < n`"),
    ("M10-zw-index", Q, "&z_eval_8n[i + 8],", "&z_eval_8n[i + 1],", 1, "z(ωX) read at i + 1"),
    ("M11-l1-size-inv-4", Q, "quotient_domain.size_inv * BlsScalar::from(8u64)", "quotient_domain.size_inv * BlsScalar::from(4u64)", 1,
     "L1 normalisation `size_inv * 8` -> `* 4`"),
    ("M12-lin-challenge-site", PR, "range_separation: range_sep_challenge,", "range_separation: logic_sep_challenge,", 1,
     "prove_inner passes the logic separation challenge as range_separation"),
    ("M13-perm-sigma-pairing", P, "let c = wires[2][i] + beta * sigma_evaluations[2][i] + gamma;", "let c = wires[2][i] + beta * sigma_evaluations[3][i] + gamma;", 1,
     "wire c paired with sigma_4 in the accumulator denominator"),
    ("M14-selector-index", Q, "prover_key.arithmetic.compute_quotient_i(i, a, b, c, d)", "prover_key.arithmetic.compute_quotient_i(i + 1, a, b, c, d)", 1,
     "arithmetic selectors read at i + 1"),
    ("M15-lin-neg-zh", L, "let z_h_eval = -domain.evaluate_vanishing_polynomial(&challenges.z);", "let z_h_eval = domain.evaluate_vanishing_polynomial(&challenges.z);", 1,
     "sign of the vanishing evaluation in the linearisation"),
    ("M16-unsupported-construct", Q, "let l1_alpha_sq = alpha.square();", "let l1_alpha_sq = alpha.square().invert().unwrap();", 1,
     "construct outside the subset (translator must abort)"),
    ("M17-target-renamed", P, "fn permutation_denominators(", "fn permutation_denoms(", 1,
     "target function no longer found (translator must abort)"),
]


def run(cmd, cwd=None, timeout=3600):
    t = time.time()
    p = subprocess.run(cmd, cwd=cwd, shell=True, stdout=subprocess.PIPE, stderr=subprocess.STDOUT, text=True, timeout=timeout)
    return p.returncode, p.stdout, time.time() - t


def gen_and_build(repo):
    rc, out, _ = run("python3 tools/rs2lean.py %s lean/Plonk/GeneratedWidgets.lean" % repo, VERIF)
    if rc != 0:
        return "translator(rs2lean) aborted rc=%d: %s" % (rc, out.strip().splitlines()[-1])
    rc, out, _ = run("python3 tools/rs2lean_prover.py %s lean/Plonk/GeneratedProver.lean" % repo, VERIF)
    if rc != 0:
        return "translator aborted rc=%d: %s" % (rc, out.strip().splitlines()[-1])
    rc, out, dt = run("lake build Plonk.Props.ProverTie", os.path.join(VERIF, "lean"))
    if rc != 0:
        errs = [l for l in out.splitlines() if "error" in l]
        return "BUILD FAILED (%.0fs): %s" % (dt, " | ".join(e[:160] for e in errs[:3]))
    return "BUILD PASSED (%.0fs)" % dt


def main():
    only = sys.argv[1:]
    results = []
    for (mid, rel, old, new, count, desc) in MUTS:
        if only and mid not in only and "all" not in only:
            continue
        if os.path.exists(MUT):
            shutil.rmtree(MUT)
        shutil.copytree("/repo/src", os.path.join(MUT, "src"))
        path = os.path.join(MUT, rel)
        s = open(path).read()
        if s.count(old) != count:
            results.append((mid, desc, "MUTATION NOT APPLICABLE: %d occurrences" % s.count(old)))
            print(results[-1], flush=True)
            continue
        open(path, "w").write(s.replace(old, new, 1))
        r = gen_and_build(MUT)
        results.append((mid, desc, r))
        print(results[-1], flush=True)
    if os.path.exists(MUT):
        shutil.rmtree(MUT)
    r = gen_and_build("/repo")
    results.append(("ORIGINAL", "regenerated from /repo", r))
    print(results[-1], flush=True)
    json.dump(results, open(os.path.join(VERIF, "evidence", "prover-tie-sensitivity.json"), "w"), indent=1)


if __name__ == "__main__":
    main()
