#!/bin/bash
# intake of a seeded change produced by a sub-agent: copy -> confirm in its scratch worktree -> remove worktree -> lab run
# usage: tools/intake.sh <PROP> <name> [props to run...]
set -u
P=$1; NAME=$2; shift 2
OUT=/verif/seeded/$NAME
mkdir -p $OUT
cp /tmp/mut-out/$P/patch.diff /tmp/mut-out/$P/meta.json $OUT/ || exit 2
[ -f /tmp/mut-out/$P/demo_test.rs ] && cp /tmp/mut-out/$P/demo_test.rs $OUT/
WT=/tmp/wt-$P
bash /verif/tools/confirm_mutant.sh $NAME $WT $OUT | tail -n 1
git -C /repo worktree remove --force $WT
rm -rf /tmp/mut-out/$P
cd /verif && python3 tools/lab.py $NAME "$@"
