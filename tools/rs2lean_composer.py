#!/usr/bin/env python3
"""Translator: the composer gadgets of /repo (Rust)  ->  Lean definitions in the model's composer monad `CM`.

  python3 tools/rs2lean_composer.py <repo> <out.lean>          (e.g. /repo lean/Plonk/GeneratedComposer.lean)

Every run regenerates `Plonk/GeneratedComposer.lean` from the CURRENT source of (see TARGETS for the exact list)

  src/composer/constraint_system/constraint.rs   enum Selector / WiredWitness, struct Constraint, consts, every method
  src/composer/constraint_system/witness.rs      Witness::{new, index, ZERO, ONE}
  src/composer/constraint_system/ecc.rs          WitnessPoint / TorsionFreeWitnessPoint constructors and accessors
  src/composer/gate.rs                           struct Gate (field list only)
  src/composer.rs                                Index::index, append_witness(_internal), append_custom_gate(_internal),
                                                 append_gate, append_evaluated_output (whole function incl. the `if` on q_O),
                                                 gate_add, gate_mul, assert_equal(_constant), append_constant, append_public,
                                                 append_dummy_gates, uninitialized, initialized, consts ZERO / ONE
  src/composer/bits.rs                           component_boolean
  src/composer/select.rs                         component_select, component_select_one, component_select_zero
  src/composer/point.rs                          every gadget except component_mul_point (loop)

`Plonk/Proofs/ComposerSource.lean` proves every translated function equal to the hand-written model
(`Plonk/Model/{Gate,Composer}.lean`); `Plonk/Props/ComposerTie.lean` collects the statements.

The translator = tokenizer + recursive-descent parser for a Rust SUBSET + a typed translation.  Anything outside the subset
ABORTS with exit code 3 and a message `file:line: ...` — nothing is skipped or defaulted silently; a listed function, impl,
enum, struct or const that is no longer found (or found twice, or carries a `cfg` attribute) aborts as well.

  item   ::= fn NAME [<T: Into<BlsScalar> | T: Into<JubJubExtended>>] (params) [-> TYPE] BLOCK
           | enum NAME { V = n, .. } | struct (field list, compared with the fixed tables below) | const NAME: TYPE = EXPR;
  BLOCK  ::= { STMT* [EXPR] }
  STMT   ::= let [mut] x [: T] = EXPR; | const X: T = EXPR; | x = EXPR; | X.has_public_input = EXPR;
           | X.coefficients[i] = EXPR; | X.witnesses[i] = EXPR; | EXPR; | EXPR?; | if COND { return Err(E); }
           | if COND { STMT* }   (effects only, no else) | if let Some(v) = OPT { x = EXPR; }
           | X.witnesses.copy_from_slice(&Y.witnesses); | let dst = &mut X.coefficients[..N]; dst.copy_from_slice(src);
  EXPR   ::= literal | path | EXPR.method(args) | Type::f(args) | f(args) | EXPR.field | self[w] | X.coefficients[i]
           | &X.coefficients[..N] | & EXPR | * EXPR | - EXPR | ! EXPR | EXPR as usize | EXPR (+ - * == &) EXPR
           | if C { .. } else { .. } | BLOCK | Struct { f: e, .. } | [e; n] | [e, ..] | |x| EXPR (only as `.map` argument)
           | Some(e) | None | Ok(e) | Err(e)
  loops, `match`, `while`, macros, tuples, `where` clauses, const generics, turbofish, compound assignment: outside.

How Rust becomes Lean: `&mut self` methods of `Composer` become `CM` actions, evaluation order of effects = Rust's (receiver,
arguments left to right, call); `let`/re-assignment become shadowing `let`s; every builder call is translated as a CALL of the
translated builder (`RConstraint.mult (RConstraint.new) 1` ..), never folded into a record literal.

Dropped on purpose (each instance is printed as a comment in the generated file and listed in its final note):
  * `self.runtime().event(..)`                       (debugger hook, no effect on the circuit)
  * statements under `#[cfg(feature = "debug")]`     (feature not part of the verified configuration)
  * `self.perm.*(..)` statements and the `perm` / `runtime` fields of `Composer`   (permutation bookkeeping is modelled
    separately — `Plonk/Model/System.lean` derives sigma from the gates)
TRUSTED (fixed in this file, not read from the source): Rust type -> Lean type (`Witness`, `BlsScalar`, `usize` -> `Nat`;
`WitnessPoint`, `TorsionFreeWitnessPoint`, `JubJubAffine` -> `Pt`; `JubJubExtended` -> `Ext`; `Option`/`Result<_, Error>` ->
`Option`/`Except CErr`), Rust struct field -> model record field (SELECTOR_FIELD, WIRE_FIELD, GATE_FIELDS, COMPOSER_FIELDS:
the coefficient addressed by `Selector::X` is the record field the model names after X), the meaning of the external-crate
calls (`BlsScalar::{one,zero,from,invert}`, `+ - *`, `JubJubAffine::{from_raw_unchecked,from,identity,get_u,get_v,
is_on_curve}`, `JubJubExtended::{from,get_z,is_on_curve,is_torsion_free}`, `ext + affine`, `ext * scalar`, see PRELUDE_FIXED
and the dispatch in `call_expr` / `mcall_expr` / `bin_expr`), panics (`expect`, out-of-bounds index) modelled as default
values (shown dead / in bounds by theorems of ComposerSource), `HashMap::insert` of a fresh row = push.
"""
import re, sys, os


class TranslateError(Exception):
    pass


def fail(msg):
    raise TranslateError(msg)


# ------------------------------------------------------------------------------------------------------------------
# tokenizer
# ------------------------------------------------------------------------------------------------------------------
TOKEN_RE = re.compile(r"""
   (?P<ws>\s+)
 | (?P<lcomment>//[^\n]*)
 | (?P<bcomment>/\*.*?\*/)
 | (?P<str>"(?:[^"\\]|\\.)*")
 | (?P<num>0x[0-9a-fA-F_]+|[0-9][0-9_]*)(?P<suffix>u8|u16|u32|u64|u128|usize|i8|i16|i32|i64|i128|isize)?
 | (?P<id>[A-Za-z_][A-Za-z0-9_]*)
 | (?P<op>::|->|=>|==|!=|<=|>=|&&|\|\||\.\.=|\.\.|\+=|-=|\*=|[-+*/%&|!<>=.,;:()\[\]{}\#?@^'])
""", re.X | re.S)


class Tok:
    __slots__ = ("k", "v", "line")

    def __init__(self, k, v, line):
        self.k, self.v, self.line = k, v, line

    def __repr__(self):
        return "%s:%s@%d" % (self.k, self.v, self.line)


def tokenize(src, fname):
    out, i, line = [], 0, 1
    n = len(src)
    while i < n:
        m = TOKEN_RE.match(src, i)
        if not m:
            out.append(Tok("unk", src[i], line))
            i += 1
            continue
        txt = m.group(0)
        if m.group("str") is not None:
            out.append(Tok("str", m.group("str"), line))
        elif m.group("num") is not None:
            out.append(Tok("num", m.group("num").replace("_", ""), line))
        elif m.group("id") is not None:
            out.append(Tok("id", m.group("id"), line))
        elif m.group("op") is not None:
            out.append(Tok("op", m.group("op"), line))
        line += txt.count("\n")
        i = m.end()
    out.append(Tok("eof", "", line))
    return out


# ------------------------------------------------------------------------------------------------------------------
# AST + parser (Rust subset)
# ------------------------------------------------------------------------------------------------------------------
class N:
    """AST node: kind + attributes"""

    def __init__(self, kind, line, **kw):
        self.kind, self.line = kind, line
        self.__dict__.update(kw)

    def __repr__(self):
        return "N(%s)" % ", ".join("%s=%r" % kv for kv in self.__dict__.items() if kv[0] != "line")


BINOPS = [  # (level, ops)  low -> high
    (1, ("||",)), (2, ("&&",)), (3, ("==", "!=", "<", ">", "<=", ">=")), (4, ("|",)), (5, ("^",)), (6, ("&",)),
    (7, ("+", "-")), (8, ("*", "/", "%")),
]
OP_LEVEL = {op: lvl for lvl, ops in BINOPS for op in ops}


class Parser:
    def __init__(self, toks, pos, fname):
        self.t, self.i, self.fname = toks, pos, fname

    # -- token helpers
    def peek(self, k=0):
        return self.t[min(self.i + k, len(self.t) - 1)]

    def at(self, v, k=0):
        t = self.peek(k)
        return t.k in ("op", "id") and t.v == v

    def err(self, msg):
        t = self.peek()
        fail("%s:%d: %s (at `%s`)" % (self.fname, t.line, msg, t.v))

    def eat(self, v=None, kind=None):
        t = self.peek()
        if v is not None and not (t.k in ("op", "id") and t.v == v):
            self.err("expected `%s`" % v)
        if kind is not None and t.k != kind:
            self.err("expected %s" % kind)
        self.i += 1
        return t

    def accept(self, v):
        if self.at(v):
            self.i += 1
            return True
        return False

    # -- types: collected as text, `<`/`(`/`[` nesting respected
    def parse_type(self, stops):
        depth, parts = 0, []
        while True:
            t = self.peek()
            if t.k == "eof":
                self.err("unterminated type")
            if depth == 0 and t.k == "op" and t.v in stops:
                break
            if t.k == "op" and t.v in ("<", "(", "["):
                depth += 1
            elif t.k == "op" and t.v in (">", ")", "]"):
                if depth == 0:
                    break
                depth -= 1
            elif t.k == "op" and t.v == "->" :
                pass
            parts.append(t.v)
            self.i += 1
        return " ".join(parts)

    def parse_generics(self):
        """`<T: Into<BlsScalar>, const N: usize>` -> {name: bound-text}"""
        out = {}
        if not self.accept("<"):
            return out
        while not self.at(">"):
            if self.accept("const"):
                nm = self.eat(kind="id").v
                self.eat(":")
                out[nm] = "const " + self.parse_type((",",))
            else:
                nm = self.eat(kind="id").v
                bound = ""
                if self.accept(":"):
                    bound = self.parse_type((",",))
                out[nm] = bound
            if not self.accept(","):
                break
        self.eat(">")
        return out

    def parse_fn(self):
        """at `fn`: signature + body"""
        line = self.eat("fn").line
        name = self.eat(kind="id").v
        generics = self.parse_generics()
        self.eat("(")
        params = []          # (name, type-text, mutable) ; self: name 'self', type '&mut self' | '&self' | 'self' | 'mut self'
        while not self.at(")"):
            if self.at("&") and (self.at("self", 1) or (self.at("mut", 1) and self.at("self", 2))):
                self.eat("&")
                mut = self.accept("mut")
                self.eat("self")
                params.append(("self", "&mut self" if mut else "&self", False))
            elif self.at("self") or (self.at("mut") and self.at("self", 1)):
                mut = self.accept("mut")
                self.eat("self")
                params.append(("self", "mut self" if mut else "self", mut))
            else:
                mut = self.accept("mut")
                nm = self.eat(kind="id").v
                self.eat(":")
                params.append((nm, self.parse_type((",",)), mut))
            if not self.accept(","):
                break
        self.eat(")")
        ret = None
        if self.accept("->"):
            ret = self.parse_type(("{", "where"))
        if self.at("where"):
            self.err("`where` clauses are outside the subset")
        body = self.parse_block()
        return N("fn", line, name=name, generics=generics, params=params, ret=ret, body=body)

    # -- blocks / statements
    def parse_block(self):
        line = self.eat("{").line
        stmts, tail = [], None
        while not self.at("}"):
            st = self.parse_stmt()
            if st is None:
                continue
            if st.kind == "tail":
                tail = st.e
                if not self.at("}"):
                    self.err("expression without `;` in the middle of a block")
                break
            stmts.append(st)
        self.eat("}")
        return N("block", line, stmts=stmts, tail=tail)

    def skip_balanced(self, open_, close):
        depth = 0
        while True:
            t = self.eat()
            if t.k == "eof":
                self.err("unbalanced")
            if t.k == "op" and t.v == open_:
                depth += 1
            elif t.k == "op" and t.v == close:
                depth -= 1
                if depth == 0:
                    return

    def parse_stmt(self):
        line = self.peek().line
        # attributes
        dropped = None
        while self.at("#"):
            self.eat("#")
            start = self.i
            self.skip_balanced("[", "]")
            txt = " ".join(x.v for x in self.t[start:self.i])
            if txt.replace(" ", "") == '[cfg(feature="debug")]':
                dropped = '#[cfg(feature = "debug")]'
            else:
                self.err("attribute `#%s` on a statement is outside the subset" % txt)
        if dropped:
            st = self.parse_stmt()
            if st is None or st.kind == "tail":
                self.err("cfg(debug) on a tail expression")
            return N("dropped", line, why=dropped + " statement (feature `debug` is not part of the verified configuration)")
        if self.accept(";"):
            return None
        # self.runtime().event(...)  : debugger hook
        if (self.at("self") and self.at(".", 1) and self.at("runtime", 2) and self.at("(", 3) and self.at(")", 4)
                and self.at(".", 5) and self.at("event", 6) and self.at("(", 7)):
            self.i += 7
            self.skip_balanced("(", ")")
            self.eat(";")
            return N("dropped", line, why="self.runtime().event(..) (debugger hook)")
        if self.at("let"):
            self.eat("let")
            mut = self.accept("mut")
            name = self.eat(kind="id").v
            ty = None
            if self.accept(":"):
                ty = self.parse_type(("=",))
            self.eat("=")
            e = self.parse_expr()
            self.eat(";")
            return N("let", line, name=name, mut=mut, ty=ty, e=e)
        if self.at("const"):
            self.eat("const")
            name = self.eat(kind="id").v
            self.eat(":")
            ty = self.parse_type(("=",))
            self.eat("=")
            e = self.parse_expr()
            self.eat(";")
            return N("let", line, name=name, mut=False, ty=ty, e=e, const=True)
        if self.at("return"):
            self.eat("return")
            e = self.parse_expr()
            self.eat(";")
            return N("return", line, e=e)
        if self.at("if") and self.at("let", 1):
            self.eat("if")
            self.eat("let")
            self.eat("Some")
            self.eat("(")
            var = self.eat(kind="id").v
            self.eat(")")
            self.eat("=")
            scrut = self.parse_expr(no_struct=True)
            blk = self.parse_block()
            if self.at("else"):
                self.err("`if let .. else` is outside the subset")
            return N("iflet", line, var=var, scrut=scrut, body=blk)
        if self.at("if"):
            e = self.parse_if()
            if self.at("}"):
                return N("tail", line, e=e)
            self.accept(";")
            return N("ifstmt", line, e=e)
        for kw in ("for", "while", "loop", "match", "unsafe"):
            if self.at(kw):
                self.err("`%s` is outside the subset" % kw)
        e = self.parse_expr()
        if self.at("="):
            self.eat("=")
            rhs = self.parse_expr()
            self.eat(";")
            return N("assign", line, lhs=e, rhs=rhs)
        for op in ("+=", "-=", "*="):
            if self.at(op):
                self.err("compound assignment is outside the subset")
        if self.accept(";"):
            return N("expr", line, e=e)
        if self.at("}"):
            return N("tail", line, e=e)
        self.err("expected `;` or `}` after expression")

    def parse_if(self):
        line = self.eat("if").line
        if self.at("let"):
            self.err("`if let` as an expression is outside the subset")
        cond = self.parse_expr(no_struct=True)
        then = self.parse_block()
        els = None
        if self.accept("else"):
            if self.at("if"):
                els = N("block", self.peek().line, stmts=[], tail=self.parse_if())
            else:
                els = self.parse_block()
        return N("if", line, cond=cond, then=then, els=els)

    # -- expressions
    def parse_expr(self, level=1, no_struct=False):
        lhs = self.parse_cast(no_struct)
        while True:
            t = self.peek()
            if t.k == "op" and t.v in OP_LEVEL and OP_LEVEL[t.v] >= level:
                # `&` followed by nothing sensible / `|` closure start are not binary here: we are after an operand, so binary
                lvl = OP_LEVEL[t.v]
                self.eat()
                rhs = self.parse_expr(lvl + 1, no_struct)
                lhs = N("bin", t.line, op=t.v, l=lhs, r=rhs)
            else:
                return lhs

    def parse_unary(self, no_struct):
        t = self.peek()
        if t.k == "op" and t.v == "-":
            self.eat()
            return N("neg", t.line, e=self.parse_unary(no_struct))
        if t.k == "op" and t.v == "!":
            self.eat()
            return N("not", t.line, e=self.parse_unary(no_struct))
        if t.k == "op" and t.v == "*":
            self.eat()
            return N("deref", t.line, e=self.parse_unary(no_struct))
        if t.k == "op" and t.v == "&":
            self.eat()
            mut = self.accept("mut")
            return N("ref", t.line, mut=mut, e=self.parse_unary(no_struct))
        return self.parse_postfix(self.parse_primary(no_struct), no_struct)

    def parse_cast(self, no_struct):
        e = self.parse_unary(no_struct)
        while self.at("as"):
            line = self.eat("as").line
            ty = self.eat(kind="id").v
            e = N("cast", line, e=e, ty=ty)
        return e

    def parse_args(self):
        self.eat("(")
        args = []
        while not self.at(")"):
            args.append(self.parse_expr())
            if not self.accept(","):
                break
        self.eat(")")
        return args

    def parse_postfix(self, e, no_struct):
        while True:
            t = self.peek()
            if t.k == "op" and t.v == ".":
                self.eat()
                f = self.peek()
                if f.k == "num":
                    self.eat()
                    e = N("field", t.line, e=e, name=f.v)
                    continue
                name = self.eat(kind="id").v
                turbofish = None
                if self.at("::"):
                    self.eat("::")
                    self.eat("<")
                    turbofish = self.parse_type((">",))
                    self.eat(">")
                if self.at("("):
                    args = self.parse_args()
                    e = N("mcall", t.line, recv=e, name=name, args=args, turbofish=turbofish)
                else:
                    e = N("field", t.line, e=e, name=name)
            elif t.k == "op" and t.v == "[":
                self.eat()
                if self.at(".."):
                    self.eat("..")
                    hi = self.parse_expr()
                    idx = N("rangeto", t.line, hi=hi)
                else:
                    idx = self.parse_expr()
                    if self.at("..") or self.at("..="):
                        self.err("only `[..N]` slices are inside the subset")
                self.eat("]")
                e = N("index", t.line, e=e, idx=idx)
            elif t.k == "op" and t.v == "?":
                self.eat()
                e = N("try", t.line, e=e)
            elif t.k == "op" and t.v == "(" and e.kind == "path":
                args = self.parse_args()
                e = N("call", t.line, path=e.segs, args=args)
            else:
                return e

    def parse_primary(self, no_struct):
        t = self.peek()
        if t.k == "num":
            self.eat()
            return N("num", t.line, v=t.v)
        if t.k == "str":
            self.eat()
            return N("str", t.line, v=t.v)
        if t.k == "op" and t.v == "(":
            self.eat()
            if self.accept(")"):
                return N("unit", t.line)
            e = self.parse_expr()
            if self.at(","):
                self.err("tuples are outside the subset")
            self.eat(")")
            return N("paren", t.line, e=e)
        if t.k == "op" and t.v == "[":
            self.eat()
            first = self.parse_expr()
            if self.accept(";"):
                n = self.parse_expr()
                self.eat("]")
                return N("arrayrep", t.line, e=first, n=n)
            items = [first]
            while self.accept(","):
                if self.at("]"):
                    break
                items.append(self.parse_expr())
            self.eat("]")
            return N("array", t.line, items=items)
        if t.k == "op" and t.v == "{":
            return self.parse_block()
        if t.k == "op" and t.v == "|":
            self.eat()
            params = []
            while not self.at("|"):
                params.append(self.eat(kind="id").v)
                if self.at(":"):
                    self.err("typed closure parameters are outside the subset")
                if not self.accept(","):
                    break
            self.eat("|")
            body = self.parse_expr()
            return N("closure", t.line, params=params, body=body)
        if t.k == "op" and t.v == "||":
            self.err("zero-argument closures are outside the subset")
        if t.k == "id":
            if t.v == "if":
                return self.parse_if()
            if t.v in ("match", "loop", "while", "for", "unsafe", "move", "async"):
                self.err("`%s` is outside the subset" % t.v)
            if t.v in ("true", "false"):
                self.eat()
                return N("bool", t.line, v=t.v)
            segs = [self.eat().v]
            while self.at("::"):
                self.eat("::")
                if self.at("<"):
                    self.eat("<")
                    segs.append("<" + self.parse_type((">",)) + ">")
                    self.eat(">")
                else:
                    segs.append(self.eat(kind="id").v)
            last = [s for s in segs if not s.startswith("<")][-1]
            if self.at("{") and not no_struct and (last[0].isupper()):
                # struct literal
                self.eat("{")
                fields = []
                while not self.at("}"):
                    if self.at("#"):
                        self.err("attributes inside a struct literal are outside the subset")
                    if self.at(".."):
                        self.err("struct update syntax is outside the subset")
                    fname = self.eat(kind="id").v
                    if self.accept(":"):
                        fe = self.parse_expr()
                    else:
                        fe = N("path", t.line, segs=[fname])
                    fields.append((fname, fe))
                    if not self.accept(","):
                        break
                self.eat("}")
                return N("struct", t.line, path=segs, fields=fields)
            return N("path", t.line, segs=segs)
        self.err("unexpected token")


# ------------------------------------------------------------------------------------------------------------------
# locating items in a file
# ------------------------------------------------------------------------------------------------------------------
class SourceFile:
    def __init__(self, repo, rel):
        self.rel = rel
        path = os.path.join(repo, rel)
        if not os.path.exists(path):
            fail("source file %s not found" % rel)
        self.toks = tokenize(open(path).read(), rel)
        self._impls = None

    def match_brace(self, i):
        depth = 0
        while True:
            t = self.toks[i]
            if t.k == "eof":
                fail("%s: unbalanced braces" % self.rel)
            if t.k == "op" and t.v == "{":
                depth += 1
            elif t.k == "op" and t.v == "}":
                depth -= 1
                if depth == 0:
                    return i
            i += 1

    def impls(self):
        """[(trait-or-None, type, body_start(index of `{`), body_end(index of `}`))]"""
        if self._impls is not None:
            return self._impls
        out, i, T = [], 0, self.toks
        while T[i].k != "eof":
            if T[i].k == "id" and T[i].v == "impl" and (i == 0 or not (T[i - 1].k == "op" and T[i - 1].v in (":", "+", "<", "->", "(", ","))):
                j, depth, hdr = i + 1, 0, []
                while not (T[j].k == "op" and T[j].v == "{" and depth == 0):
                    if T[j].k == "eof":
                        fail("%s: impl header without body" % self.rel)
                    if T[j].k == "op" and T[j].v == "<":
                        depth += 1
                    elif T[j].k == "op" and T[j].v == ">":
                        depth -= 1
                    hdr.append(T[j].v)
                    j += 1
                # drop leading generics
                if hdr and hdr[0] == "<":
                    d = 0
                    for k, v in enumerate(hdr):
                        if v == "<":
                            d += 1
                        elif v == ">":
                            d -= 1
                            if d == 0:
                                hdr = hdr[k + 1:]
                                break
                txt = "".join(hdr)
                trait, ty = (None, txt)
                # split at top-level ` for `
                d = 0
                for k, v in enumerate(hdr):
                    if v == "<":
                        d += 1
                    elif v == ">":
                        d -= 1
                    elif v == "for" and d == 0:
                        trait, ty = "".join(hdr[:k]), "".join(hdr[k + 1:])
                        break
                end = self.match_brace(j)
                out.append((trait, ty, j, end))
                i = j + 1
                continue
            i += 1
        self._impls = out
        return out

    def find_impl_ranges(self, ty, trait):
        rs = [(s, e) for (tr, t, s, e) in self.impls() if t == ty and tr == trait]
        if not rs:
            fail("%s: `impl %s%s` not found" % (self.rel, (trait + " for ") if trait else "", ty))
        return rs

    def depth1_positions(self, start, end):
        """token indices inside (start, end) at brace depth 1 relative to `start` (start is the opening brace or -1 for file level)"""
        depth = 0 if start >= 0 else 1
        i = start if start >= 0 else 0
        while i < end:
            t = self.toks[i]
            if t.k == "op" and t.v == "{":
                depth += 1
                if depth == 2 and False:
                    pass
            elif t.k == "op" and t.v == "}":
                depth -= 1
            elif depth == 1:
                yield i
            i += 1

    def find_fn(self, ty, trait, name):
        """parse `fn name` of `impl [trait for] ty` (ty None: free function at file level); exactly one must exist"""
        ranges = self.find_impl_ranges(ty, trait) if ty else [(-1, len(self.toks) - 1)]
        hits = []
        for (s, e) in ranges:
            for i in self.depth1_positions(s, e):
                if self.toks[i].k == "id" and self.toks[i].v == "fn" and self.toks[i + 1].k == "id" and self.toks[i + 1].v == name:
                    hits.append(i)
        where = ("impl %s%s" % ((trait + " for ") if trait else "", ty)) if ty else "file level"
        if len(hits) == 0:
            fail("%s: function `%s` (%s) is no longer found" % (self.rel, name, where))
        if len(hits) > 1:
            fail("%s: function `%s` (%s) found %d times" % (self.rel, name, where, len(hits)))
        i = hits[0]
        # attributes directly before the fn (cfg'd functions are suspicious)
        j = i - 1
        while j >= 0 and self.toks[j].k == "id" and self.toks[j].v in ("pub", "const", "crate", "super") or \
                (j >= 0 and self.toks[j].k == "op" and self.toks[j].v in ("(", ")")):
            j -= 1
        if j >= 0 and self.toks[j].k == "op" and self.toks[j].v == "]":
            k = j
            while not (self.toks[k].k == "op" and self.toks[k].v == "#"):
                k -= 1
            attr = "".join(t.v for t in self.toks[k:j + 1])
            if "cfg" in attr:
                fail("%s: function `%s` carries %s — conditional compilation of a translated function is outside the subset" % (self.rel, name, attr))
        p = Parser(self.toks, i, self.rel)
        return p.parse_fn()

    def find_const(self, ty, name):
        """`const NAME: T = EXPR;` inside `impl ty` (or file level): returns (type-text, expr AST)"""
        ranges = self.find_impl_ranges(ty, None) if ty else [(-1, len(self.toks) - 1)]
        hits = []
        for (s, e) in ranges:
            for i in self.depth1_positions(s, e):
                if self.toks[i].k == "id" and self.toks[i].v == "const" and self.toks[i + 1].k == "id" and self.toks[i + 1].v == name:
                    hits.append(i)
        if len(hits) != 1:
            fail("%s: const `%s` of %s found %d times (expected 1)" % (self.rel, name, ty or "file level", len(hits)))
        p = Parser(self.toks, hits[0], self.rel)
        p.eat("const")
        p.eat(kind="id")
        p.eat(":")
        tyt = p.parse_type(("=",))
        p.eat("=")
        e = p.parse_expr()
        p.eat(";")
        return tyt, e

    def find_enum(self, name):
        """`enum NAME { V = n, ... }` -> [(variant, int)]"""
        T = self.toks
        hits = [i for i in range(len(T) - 1) if T[i].k == "id" and T[i].v == "enum" and T[i + 1].v == name]
        if len(hits) != 1:
            fail("%s: enum `%s` found %d times" % (self.rel, name, len(hits)))
        p = Parser(T, hits[0] + 2, self.rel)
        p.eat("{")
        out = []
        while not p.at("}"):
            while p.at("#"):
                p.eat("#")
                p.skip_balanced("[", "]")
            v = p.eat(kind="id").v
            if p.at("(") or p.at("{"):
                p.err("enum `%s`: variants with data are outside the subset" % name)
            p.eat("=")
            num = p.eat(kind="num").v
            out.append((v, int(num, 0)))
            if not p.accept(","):
                break
        p.eat("}")
        return out

    def find_struct(self, name):
        """`struct NAME { f: T, ... }` -> [(field, type-text)]   or   `struct NAME(T);` -> [("0", T)]"""
        T = self.toks
        hits = [i for i in range(len(T) - 1) if T[i].k == "id" and T[i].v == "struct" and T[i + 1].v == name]
        if len(hits) != 1:
            fail("%s: struct `%s` found %d times" % (self.rel, name, len(hits)))
        p = Parser(T, hits[0] + 2, self.rel)
        if p.at("<"):
            p.err("generic struct outside the subset")
        out = []
        if p.accept("("):
            k = 0
            while not p.at(")"):
                while p.at("pub"):
                    p.eat()
                    if p.at("("):
                        p.skip_balanced("(", ")")
                out.append((str(k), p.parse_type((",",))))
                k += 1
                if not p.accept(","):
                    break
            p.eat(")")
            return out
        p.eat("{")
        while not p.at("}"):
            while p.at("#"):
                p.eat("#")
                p.skip_balanced("[", "]")
            if p.accept("pub"):
                if p.at("("):
                    p.skip_balanced("(", ")")
            f = p.eat(kind="id").v
            p.eat(":")
            out.append((f, p.parse_type((",",))))
            if not p.accept(","):
                break
        p.eat("}")
        return out


# ------------------------------------------------------------------------------------------------------------------
# fixed tables (TRUSTED): Rust types / fields  ->  the model's types / fields
# ------------------------------------------------------------------------------------------------------------------
# Selector variant -> field of the model's `Constraint` record (the model names the coefficient by its selector)
SELECTOR_FIELD = {
    "Multiplication": "qm", "Left": "ql", "Right": "qr", "Output": "qo", "Fourth": "qf", "Constant": "qc",
    "PublicInput": "pi", "Arithmetic": "qarith", "Range": "qrange", "Logic": "qlogic",
    "GroupAddFixedBase": "qfixed", "GroupAddVariableBase": "qvar",
}
WIRE_FIELD = {"A": "a", "B": "b", "C": "c", "D": "d"}
# Rust `Gate` field -> field of the model's `Gate` record
GATE_FIELDS = {
    "q_m": "qm", "q_l": "ql", "q_r": "qr", "q_o": "qo", "q_f": "qf", "q_c": "qc", "q_arith": "qarith",
    "q_range": "qrange", "q_logic": "qlogic", "q_fixed_group_add": "qfixed", "q_variable_group_add": "qvar",
    "a": "a", "b": "b", "c": "c", "d": "d",
}
GATE_FIELD_TYPES = dict([(k, "BlsScalar") for k in GATE_FIELDS if k.startswith("q_")] + [(k, "Witness") for k in "abcd"])
# Rust `Composer` field -> field of the model's `Composer` record (None: not part of the model state)
COMPOSER_FIELDS = {"constraints": "gates", "public_inputs": "pis", "witnesses": "wit", "perm": None, "runtime": None}
COMPOSER_FIELD_TYPES = {"constraints": "Vec<Gate>", "public_inputs": "HashMap<usize,BlsScalar>", "witnesses": "Vec<BlsScalar>",
                        "perm": "Permutation", "runtime": "Runtime"}
CONSTRAINT_STRUCT = [("coefficients", "[BlsScalar;Self::COEFFICIENTS]"), ("witnesses", "[Witness;Self::WITNESSES]"),
                     ("has_public_input", "bool")]
ERRORS = {"JubJubPointDegenerate": "CErr.degenerate", "JubJubPointNotTorsionFree": "CErr.notTorsionFree",
          "JubJubGeneratorNotPrimeOrder": "CErr.generatorNotPrime", "JubJubScalarMalformed": "CErr.scalarMalformed",
          "UnsupportedWNAF2k": "CErr.unsupportedWnaf"}

IMPL_TYPE = {"Constraint": "K", "Composer": "COMPOSER", "Witness": "W", "WitnessPoint": "P", "TorsionFreeWitnessPoint": "TP"}
IMPL_NS = {"Constraint": "RConstraint", "Composer": "RComposer", "Witness": "RWitness", "WitnessPoint": "RWitnessPoint",
           "TorsionFreeWitnessPoint": "RTorsionFreeWitnessPoint", None: "RFree"}

LEAN_RESERVED = set("""self public private protected constant at from end in do fun then with show have open local prefix
 instance class structure theorem def example variable universe section namespace match if else let where by deriving
 import export mutual inductive abbrev axiom attribute macro syntax notation infix infixl infixr postfix set_option using
 calc nomatch return for unless try catch finally mut Type Prop Sort default obtain suffices opaque unsafe partial
 extends omit include meta module all""".split())


def lv(name):
    """Rust identifier -> Lean identifier"""
    if re.fullmatch(r"t_\d+|m_|err_", name):
        fail("identifier `%s` collides with the translator's own temporaries" % name)
    return name + "_" if name in LEAN_RESERVED else name


def lean_ty(t):
    if t in ("S", "IS", "INT", "USIZE", "W", "JS"):
        return "Nat"
    if t == "K":
        return "Constraint"
    if t in ("P", "TP", "AFF"):
        return "Pt"
    if t in ("EXT", "IEXT"):
        return "Ext"
    if t == "BOOL":
        return "Bool"
    if t == "UNIT":
        return "Unit"
    if t == "SEL":
        return "Selector"
    if t == "WIRE":
        return "WiredWitness"
    if t == "COMPOSER":
        return "Composer"
    if t == "GATE":
        return "Gate"
    if t == "ERR":
        return "CErr"
    if isinstance(t, tuple) and t[0] == "OPT":
        return "Option %s" % par(lean_ty(t[1]))
    if isinstance(t, tuple) and t[0] == "RES":
        return "Except CErr %s" % par(lean_ty(t[1]))
    if isinstance(t, tuple) and t[0] == "LIST":
        return "List %s" % par(lean_ty(t[1]))
    fail("no Lean type for %r" % (t,))


def compatible(actual, wanted):
    """may a value of type code `actual` be used where `wanted` is declared?  (Rust has type-checked the source; this guards
    the translator's own overloading: every code stands for ONE Lean meaning)"""
    if actual == wanted:
        return True
    if actual == "INT" and wanted in ("IS", "USIZE"):
        return True                       # integer literal: u64 -> Into<BlsScalar>, or usize
    if actual == "S" and wanted == "IS":
        return True                       # BlsScalar: Into<BlsScalar>
    if actual == "EXT" and wanted == "IEXT":
        return True
    if isinstance(actual, tuple) and isinstance(wanted, tuple) and actual[0] == wanted[0] and len(actual) == 2:
        return actual[1] is None or compatible(actual[1], wanted[1])
    return False


def is_atomic(s):
    s = s.strip()
    if "\n" in s:
        return False
    if re.fullmatch(r"[A-Za-z0-9_.'!?«»]+", s):
        return True
    if s[0] in "([" and s[-1] in ")]":
        depth = 0
        for i, ch in enumerate(s):
            if ch in "([":
                depth += 1
            elif ch in ")]":
                depth -= 1
                if depth == 0 and i != len(s) - 1:
                    return False
        return True
    return False


def par(s):
    return s if is_atomic(s) else "(" + s + ")"


def indent(lines, n=2):
    out = []
    for l in lines:
        for x in l.split("\n"):
            out.append(" " * n + x)
    return out


def rust_ty(text, generics, self_code):
    """Rust type text -> type code"""
    t = text.replace(" ", "")
    t = re.sub(r"^&(mut)?", "", t)
    t = re.sub(r"^&(mut)?", "", t)
    simple = {"Witness": "W", "BlsScalar": "S", "Constraint": "K", "WitnessPoint": "P", "TorsionFreeWitnessPoint": "TP",
              "JubJubAffine": "AFF", "JubJubExtended": "EXT", "JubJubScalar": "JS", "bool": "BOOL", "usize": "USIZE",
              "u64": "USIZE", "Selector": "SEL", "WiredWitness": "WIRE", "Gate": "GATE", "Composer": "COMPOSER", "()": "UNIT",
              "Self::Output": "S"}
    if t == "Self":
        if self_code is None:
            fail("`Self` outside an impl")
        return self_code
    if t in simple:
        return simple[t]
    if t in generics:
        b = generics[t].replace(" ", "")
        if b == "Into<BlsScalar>":
            return "IS"
        if b == "Into<JubJubExtended>":
            return "IEXT"
        fail("generic parameter `%s: %s` is outside the subset" % (t, generics[t]))
    m = re.fullmatch(r"Option<(.*)>", t)
    if m:
        return ("OPT", rust_ty(m.group(1), generics, self_code))
    m = re.fullmatch(r"Result<(.*),Error>", t)
    if m:
        return ("RES", rust_ty(m.group(1), generics, self_code))
    fail("Rust type `%s` is outside the subset" % text)


class FnInfo:
    def __init__(self, key, lean, params, ret, mode, ast, self_code, rel):
        self.key, self.lean, self.params, self.ret, self.mode, self.ast, self.self_code, self.rel = \
            key, lean, params, ret, mode, ast, self_code, rel


class Lines:
    """structured lines of a block: ('bind', var|None, call, ty) | ('let', var, text) | ('raw', text) | ('comment', text)"""

    def __init__(self):
        self.items = []

    def add(self, *it):
        self.items.append(tuple(it))

    def last_bind_tmp(self, text):
        if self.items and self.items[-1][0] == "bind" and self.items[-1][1] == text and text.startswith("t_"):
            return True
        return False

    def render(self):
        out = []
        for it in self.items:
            if it[0] == "bind":
                if it[1] is None:
                    out.append(it[2])
                else:
                    out.append("let %s ← %s" % (it[1], it[2]))
            elif it[0] == "let":
                out.append("let %s := %s" % (it[1], it[2]))
            elif it[0] == "raw":
                out.append(it[1])
            elif it[0] == "comment":
                out.append("-- dropped: " + it[1])
        return out


class World:
    """everything known about the source: enums, consts, translated functions"""

    def __init__(self):
        self.fns = {}            # (TypeName|None, fn) -> FnInfo
        self.consts = {}         # (TypeName|None, NAME) -> (lean, ty)
        self.selectors = []      # [(variant, n)]
        self.wires = []
        self.model_callees = {}  # (TypeName, fn) -> (lean, [param types], ret type)   untranslated Rust functions = model functions
        self.used_model_callees = set()
        self.dropped = []        # (fn, why)


class FnTranslator:
    def __init__(self, world, rel, type_name, fn_ast, self_code):
        self.w, self.rel, self.type_name, self.fn, self.self_code = world, rel, type_name, fn_ast, self_code
        self.tmp = 0
        self.mutable = set()
        self.recv = None         # name of the variable that is the Composer receiver in CM mode
        self.ret = None

    def err(self, node, msg):
        fail("%s:%d: in `%s`: %s" % (self.rel, getattr(node, "line", 0), self.fn.name if self.fn else "const", msg))

    def fresh(self):
        self.tmp += 1
        return "t_%d" % self.tmp

    # ---------------------------------------------------------------------------------------------------- expressions
    def resolve_type_name(self, seg):
        return self.type_name if seg == "Self" else seg

    def expr(self, e, env, L, fx, expect=None):
        """-> (lean text, type code). L: Lines (for effect bindings), fx: effects allowed"""
        k = e.kind
        if k == "num":
            return e.v, "INT"
        if k == "bool":
            return e.v, "BOOL"
        if k == "str":
            return e.v, "STR"
        if k == "unit":
            return "()", "UNIT"
        if k == "paren":
            return self.expr(e.e, env, L, fx, expect)
        if k in ("ref", "deref"):
            if k == "ref" and e.e.kind == "index" and e.e.idx.kind == "rangeto":
                return self.slice_expr(e.e, env, L, fx, e.mut)
            return self.expr(e.e, env, L, fx, expect)
        if k == "path":
            return self.path_expr(e, env)
        if k == "call":
            return self.call_expr(e, env, L, fx, expect)
        if k == "struct":
            return self.struct_expr(e, env, L, fx)
        if k == "field":
            return self.field_expr(e, env, L, fx)
        if k == "index":
            return self.index_expr(e, env, L, fx)
        if k == "cast":
            t, ty = self.expr(e.e, env, L, fx)
            if e.ty not in ("usize", "u64"):
                self.err(e, "cast `as %s` is outside the subset" % e.ty)
            if ty == "SEL":
                return "Selector.toNat %s" % par(t), "USIZE"
            if ty == "WIRE":
                return "WiredWitness.toNat %s" % par(t), "USIZE"
            if ty in ("INT", "USIZE"):
                return t, "USIZE"
            self.err(e, "cast of a value of type %s" % (ty,))
        if k == "neg":
            t, ty = self.expr(e.e, env, L, fx)
            if ty != "S":
                self.err(e, "unary minus on a non-scalar (%s)" % (ty,))
            return "fneg %s" % par(t), "S"
        if k == "not":
            t, ty = self.expr(e.e, env, L, fx)
            if ty != "BOOL":
                self.err(e, "`!` on a non-boolean")
            return "!%s" % par(t), "BOOL"
        if k == "bin":
            return self.bin_expr(e, env, L, fx)
        if k == "block":
            return self.pure_block(e, env)
        if k == "if":
            return self.if_expr(e, env)
        if k == "arrayrep":
            t, ty = self.expr(e.e, env, L, fx)
            n, nty = self.expr(e.n, env, L, fx)
            if nty not in ("USIZE", "INT"):
                self.err(e, "array length is not a usize")
            return "List.replicate %s %s" % (par(n), par(t)), ("LIST", ty)
        if k == "array":
            items = [self.expr(x, env, L, fx) for x in e.items]
            return "[%s]" % ", ".join(t for t, _ in items), ("LIST", items[0][1])
        if k == "mcall":
            return self.mcall_expr(e, env, L, fx, expect)
        if k == "try":
            self.err(e, "`?` is supported only as a statement `EXPR?;`")
        if k == "closure":
            self.err(e, "closure outside `.map(..)`")
        self.err(e, "expression kind `%s` is outside the subset" % k)

    def path_expr(self, e, env):
        segs = e.segs
        if len(segs) == 1:
            nm = segs[0]
            if nm in env:
                return lv(nm), env[nm]
            if nm == "None":
                return "none", ("OPT", None)
            if nm == "EDWARDS_D":
                return "EDWARDS_D", "S"          # dusk_jubjub::EDWARDS_D = Plonk.EDWARDS_D (external crate constant, modelled)
            if (None, nm) in self.w.consts:
                return self.w.consts[(None, nm)]
            self.err(e, "unknown identifier `%s`" % nm)
        if len(segs) == 2:
            ty, nm = self.resolve_type_name(segs[0]), segs[1]
            if ty == "Selector":
                if nm not in dict(self.w.selectors):
                    self.err(e, "unknown selector `%s`" % nm)
                return "Selector.%s" % nm, "SEL"
            if ty == "WiredWitness":
                if nm not in dict(self.w.wires):
                    self.err(e, "unknown wire `%s`" % nm)
                return "WiredWitness.%s" % nm, "WIRE"
            if ty == "Error":
                if nm not in ERRORS:
                    self.err(e, "unknown error variant `%s`" % nm)
                return ERRORS[nm], "ERR"
            if (ty, nm) in self.w.consts:
                return self.w.consts[(ty, nm)]
            self.err(e, "unknown path `%s::%s`" % (segs[0], nm))
        self.err(e, "path `%s` is outside the subset" % "::".join(segs))

    def args_for(self, e, args, ptypes, env, L, fx, what):
        if len(args) != len(ptypes):
            self.err(e, "%s: %d arguments for %d parameters" % (what, len(args), len(ptypes)))
        out = []
        for a, (pn, pt) in zip(args, ptypes):
            t, ty = self.expr(a, env, L, fx, expect=pt)
            if not compatible(ty, pt):
                self.err(a, "%s: argument `%s` has type %s, parameter wants %s" % (what, pn, ty, pt))
            out.append(par(t))
        return out

    def call_fn(self, e, info, recv_text, args, env, L, fx):
        """call of a translated function"""
        ptypes = info.params
        if info.mode == "cm":
            if not fx:
                self.err(e, "effectful call `%s` in a pure context" % info.key[1])
            a = self.args_for(e, args, ptypes, env, L, fx, info.key[1])
            tmp = self.fresh()
            L.add("bind", tmp, " ".join([info.lean] + a), info.ret)
            return tmp, info.ret
        if info.mode == "mutator":
            self.err(e, "`&mut self` method `%s` used as an expression" % info.key[1])
        a = self.args_for(e, args, ptypes[1:] if recv_text is not None else ptypes, env, L, fx, info.key[1])
        return " ".join([info.lean] + ([par(recv_text)] if recv_text is not None else []) + a), info.ret

    def call_expr(self, e, env, L, fx, expect):
        segs = [s for s in e.path if not s.startswith("<")]
        full = "::".join(segs)
        args = e.args
        if full == "Some":
            t, ty = self.expr(args[0], env, L, fx)
            return "some %s" % par(t), ("OPT", ty)
        if full == "Ok":
            t, ty = self.expr(args[0], env, L, fx)
            return "Except.ok %s" % par(t), ("RES", ty)
        if full == "Err":
            t, ty = self.expr(args[0], env, L, fx)
            if ty != "ERR":
                self.err(e, "Err(..) of a non-error")
            return "Except.error %s" % par(t), ("RES", None)
        if len(segs) == 1:
            nm = segs[0]
            if nm == "BlsScalar":      # tuple-struct constructor: raw Montgomery limbs
                if len(args) != 1 or args[0].kind != "array" or len(args[0].items) != 4 or any(x.kind != "num" for x in args[0].items):
                    self.err(e, "BlsScalar(..) expects four literal limbs")
                return "fromMontLimbs [%s]" % ", ".join(x.v for x in args[0].items), "S"
            if nm == "Self" and self.type_name == "TorsionFreeWitnessPoint":   # newtype constructor
                t, ty = self.expr(args[0], env, L, fx)
                if ty != "P":
                    self.err(e, "Self(..) expects a WitnessPoint")
                return t, "TP"
            if (None, nm) in self.w.fns:
                return self.call_fn(e, self.w.fns[(None, nm)], None, args, env, L, fx)
            self.err(e, "call of unknown function `%s`" % nm)
        if len(segs) != 2:
            self.err(e, "call path `%s` is outside the subset" % full)
        ty_name, fn = self.resolve_type_name(segs[0]), segs[1]
        if (ty_name, fn) in self.w.fns:
            info = self.w.fns[(ty_name, fn)]
            if info.mode == "cm" or (info.params and info.params[0][0] == "self"):
                self.err(e, "`%s` called in path form with a receiver" % full)
            return self.call_fn(e, info, None, args, env, L, fx)
        ext = "%s::%s" % (ty_name, fn)
        A = [self.expr(a, env, L, fx) for a in args]

        def want(*tys):
            if len(A) != len(tys) or any(lean_ty(a[1]) != lean_ty(t) for a, t in zip(A, tys)):
                self.err(e, "`%s`: unexpected argument types %s" % (ext, [a[1] for a in A]))
        if ext == "BlsScalar::one":
            want()
            return "intoScalar 1", "S"
        if ext == "BlsScalar::zero":
            want()
            return "intoScalar 0", "S"
        if ext == "BlsScalar::from":
            if len(A) != 1 or A[0][1] not in ("INT", "USIZE"):
                self.err(e, "BlsScalar::from of a non-integer")
            return "intoScalar %s" % par(A[0][0]), "S"
        if ext == "JubJubScalar::from_raw":
            if len(args) != 1 or args[0].kind != "array" or len(args[0].items) != 4 or any(x.kind != "num" for x in args[0].items):
                self.err(e, "JubJubScalar::from_raw expects four literal limbs")
            return "jubjubScalarFromRaw %s" % A[0][0], "JS"
        if ext == "JubJubAffine::from_raw_unchecked":
            want("S", "S")
            return "(%s, %s)" % (A[0][0], A[1][0]), "AFF"
        if ext == "JubJubAffine::identity":
            want()
            return "Pt.id", "AFF"
        if ext == "JubJubAffine::from":
            want("EXT")
            return "jjAffineFromExt %s" % par(A[0][0]), "AFF"
        if ext == "JubJubExtended::from":
            if len(A) != 1 or A[0][1] != "AFF":
                self.err(e, "JubJubExtended::from of a non-affine point")
            return "Ext.ofAffine %s" % par(A[0][0]), "EXT"
        if ext == "bool::from":
            want("BOOL")
            return A[0][0], "BOOL"
        if ext in ("Vec::new", "HashMap::new"):
            want()
            return "#[]", "EMPTYVEC"
        if ext in ("Permutation::new", "Runtime::new"):
            want()
            return "", "UNMODELLED"
        self.err(e, "call of `%s` is outside the subset (function not translated and not a known external)" % full)

    def struct_expr(self, e, env, L, fx):
        name = self.resolve_type_name([s for s in e.path if not s.startswith("<")][-1])
        F = [(f, self.expr(fe, env, L, fx)) for f, fe in e.fields]
        names = [f for f, _ in F]
        if len(set(names)) != len(names):
            self.err(e, "duplicate field")
        d = dict(F)
        if name == "Constraint":
            if set(names) != {"coefficients", "witnesses", "has_public_input"}:
                self.err(e, "Constraint literal: unexpected field set %s" % names)
            return "mkConstraint %s %s %s" % (par(d["coefficients"][0]), par(d["witnesses"][0]), par(d["has_public_input"][0])), "K"
        if name == "Gate":
            if set(names) != set(GATE_FIELDS):
                self.err(e, "Gate literal: field set differs from the model's Gate: %s" % sorted(set(names) ^ set(GATE_FIELDS)))
            return "({ %s } : Gate)" % ", ".join("%s := %s" % (GATE_FIELDS[f], t) for f, (t, _) in F), "GATE"
        if name == "Composer":
            if set(names) != set(COMPOSER_FIELDS):
                self.err(e, "Composer literal: field set differs: %s" % sorted(set(names) ^ set(COMPOSER_FIELDS)))
            parts = []
            for f, (t, ty) in F:
                if COMPOSER_FIELDS[f] is None:
                    if ty != "UNMODELLED":
                        self.err(e, "Composer.%s is expected to be initialised with `::new()`" % f)
                    self.w.dropped.append((self.fn.name, "field `%s` of Composer (not part of the model state)" % f))
                else:
                    if ty != "EMPTYVEC":
                        self.err(e, "Composer.%s: only `Vec::new()` / `HashMap::new()` supported" % f)
                    parts.append("%s := %s" % (COMPOSER_FIELDS[f], t))
            return "({ %s } : Composer)" % ", ".join(parts), "COMPOSER"
        if name == "WitnessPoint":
            if names != ["x", "y"] and set(names) != {"x", "y"}:
                self.err(e, "WitnessPoint literal: fields %s" % names)
            if d["x"][1] != "W" or d["y"][1] != "W":
                self.err(e, "WitnessPoint literal: coordinates are not witnesses")
            return "(%s, %s)" % (d["x"][0], d["y"][0]), "P"
        if name == "Witness":
            if names != ["index"]:
                self.err(e, "Witness literal: fields %s" % names)
            return d["index"][0], "W"
        self.err(e, "struct literal `%s` is outside the subset" % name)

    def field_expr(self, e, env, L, fx):
        t, ty = self.expr(e.e, env, L, fx)
        f = e.name
        if ty == "K" and f == "has_public_input":
            return "%s.hasPi" % par(t), "BOOL"
        if ty == "P" and f == "x":
            return "%s.1" % par(t), "W"
        if ty == "P" and f == "y":
            return "%s.2" % par(t), "W"
        if ty == "TP" and f == "0":
            return t, "P"
        if ty == "W" and f == "index":
            return t, "USIZE"
        self.err(e, "field `.%s` of a value of type %s is outside the subset" % (f, ty))

    def arr_field(self, e, env):
        """`X.coefficients` / `X.witnesses` with X a Constraint variable -> (lean var text, field) or None"""
        if e.kind == "field" and e.name in ("coefficients", "witnesses") and e.e.kind == "path" and len(e.e.segs) == 1 \
                and env.get(e.e.segs[0]) == "K":
            return e.e.segs[0], e.name
        return None

    def slice_expr(self, e, env, L, fx, mut):
        af = self.arr_field(e.e, env)
        if af is None or af[1] != "coefficients":
            self.err(e, "only `&[mut] X.coefficients[..N]` slices are inside the subset")
        hi, hty = self.expr(e.idx.hi, env, L, fx)
        if hty not in ("USIZE", "INT"):
            self.err(e, "slice bound is not a usize")
        if mut:
            return "", ("MSLICE", af[0], hi)
        return "coeffPrefix %s %s" % (lv(af[0]), par(hi)), ("SLICE", hi)

    def index_expr(self, e, env, L, fx):
        if e.idx.kind == "rangeto":
            self.err(e, "slice must be borrowed (`&X.coefficients[..N]`)")
        # self[w]
        if e.e.kind == "path" and len(e.e.segs) == 1 and env.get(e.e.segs[0]) == "COMPOSER":
            if ("Composer", "index") not in self.w.fns:
                self.err(e, "`self[..]` before `Index::index` is translated")
            return self.call_fn(e, self.w.fns[("Composer", "index")], None, [e.idx], env, L, fx)
        af = self.arr_field(e.e, env)
        if af is not None:
            i, ity = self.expr(e.idx, env, L, fx)
            if ity != "USIZE":
                self.err(e, "array index is not a usize")
            if af[1] == "coefficients":
                return "coeffGet %s %s" % (lv(af[0]), par(i)), "S"
            return "witGet %s %s" % (lv(af[0]), par(i)), "W"
        # self.witnesses[i]  (Composer)
        if e.e.kind == "field" and e.e.e.kind == "path" and len(e.e.e.segs) == 1 and env.get(e.e.e.segs[0]) == "COMPOSER":
            if e.e.name != "witnesses":
                self.err(e, "indexing Composer.%s is outside the subset" % e.e.name)
            if not fx:
                self.err(e, "state read in a pure context")
            i, ity = self.expr(e.idx, env, L, fx)
            if ity != "USIZE":
                self.err(e, "vector index is not a usize")
            tmp = self.fresh()
            L.add("bind", tmp, "witnessesIndex %s" % par(i), "S")
            return tmp, "S"
        self.err(e, "index expression is outside the subset")

    def bin_expr(self, e, env, L, fx):
        l, lt = self.expr(e.l, env, L, fx)
        r, rt = self.expr(e.r, env, L, fx)
        op = e.op
        if lt == "S" and rt == "S" and op in ("+", "-", "*"):
            return "%s %s %s" % ({"+": "fadd", "-": "fsub", "*": "fmul"}[op], par(l), par(r)), "S"
        if lt == "S" and rt == "S" and op == "==":
            return "%s == %s" % (par(l), par(r)), "BOOL"
        if lt == "BOOL" and rt == "BOOL" and op in ("&", "&&"):
            return "%s && %s" % (par(l), par(r)), "BOOL"
        if lt == "EXT" and rt == "JS" and op == "*":
            return "Ext.mulBits %s %s" % (par(l), par(r)), "EXT"      # JubJubExtended * JubJubScalar
        if lt == "EXT" and rt == "AFF" and op == "+":
            return "Ext.add %s (Ext.ofAffine %s)" % (par(l), par(r)), "EXT"   # mixed addition
        self.err(e, "operator `%s` on (%s, %s) is outside the subset" % (op, lt, rt))

    def pure_block(self, blk, env):
        """block expression without effects -> parenthesised let-chain"""
        lines, res, ty = self.block(blk, dict(env), "pure", None)
        if not lines:
            return res, ty
        return "(\n" + "\n".join(indent(lines + [res], 4)) + ")", ty

    def if_expr(self, e, env):
        c, cty = self.expr(e.cond, env, Lines(), False)
        if cty != "BOOL":
            self.err(e, "condition is not a boolean")
        if e.els is None:
            self.err(e, "`if` without `else` used as a value")
        a, at = self.pure_block(e.then, env)
        b, bt = self.pure_block(e.els, env)
        if lean_ty(at if at != ("OPT", None) else bt) != lean_ty(bt if bt != ("OPT", None) else at):
            self.err(e, "branches of `if` have different types (%s, %s)" % (at, bt))
        ty = at if at != ("OPT", None) else bt
        return "if %s then %s else %s" % (c, par(a), par(b)), ty

    def composer_field_call(self, e, env, L, fx):
        """`self.<vec>.len()/push(..)/insert(..)` and `self.perm.*(..)`  -> (text, type) or None"""
        r = e.recv
        if not (r.kind == "field" and r.e.kind == "path" and len(r.e.segs) == 1 and env.get(r.e.segs[0]) == "COMPOSER"):
            return None
        f, m = r.name, e.name
        if f not in COMPOSER_FIELDS:
            self.err(e, "unknown Composer field `%s`" % f)
        if not fx:
            self.err(e, "state access in a pure context")
        if COMPOSER_FIELDS[f] is None:
            for a in e.args:        # arguments must be pure
                self.expr(a, env, Lines(), False)
            why = "self.%s.%s(..) (%s: not part of the model state)" % (f, m, "permutation bookkeeping" if f == "perm" else f)
            return "", ("DROPPED", why)
        A = [self.expr(a, env, L, fx) for a in e.args]
        tmp = self.fresh()
        if m == "len" and not A and f in ("witnesses", "constraints"):
            L.add("bind", tmp, "%sLen" % f, "USIZE")
            return tmp, "USIZE"
        if m == "push" and len(A) == 1 and f == "witnesses" and A[0][1] == "S":
            L.add("bind", tmp, "witnessesPush %s" % par(A[0][0]), "UNIT")
            return tmp, "UNIT"
        if m == "push" and len(A) == 1 and f == "constraints" and A[0][1] == "GATE":
            L.add("bind", tmp, "constraintsPush %s" % par(A[0][0]), "UNIT")
            return tmp, "UNIT"
        if m == "insert" and len(A) == 2 and f == "public_inputs" and A[0][1] == "USIZE" and A[1][1] == "S":
            L.add("bind", tmp, "publicInputsInsert %s %s" % (par(A[0][0]), par(A[1][0])), "UNIT")
            return tmp, "UNIT"
        self.err(e, "`self.%s.%s(..)` with arguments %s is outside the subset" % (f, m, [a[1] for a in A]))

    def mcall_expr(self, e, env, L, fx, expect):
        if e.turbofish:
            self.err(e, "turbofish call is outside the subset")
        r = self.composer_field_call(e, env, L, fx)
        if r is not None:
            return r
        m = e.name
        t, ty = self.expr(e.recv, env, L, fx)
        if ty == "COMPOSER":
            if ("Composer", m) in self.w.fns:
                info = self.w.fns[("Composer", m)]
                if info.mode != "cm":
                    self.err(e, "`%s` is not a method" % m)
                return self.call_fn(e, info, None, e.args, env, L, fx)
            if ("Composer", m) in self.w.model_callees:
                lean, ptypes, ret = self.w.model_callees[("Composer", m)]
                self.w.used_model_callees.add(("Composer", m))
                a = self.args_for(e, e.args, [("arg", p) for p in ptypes], env, L, fx, m)
                tmp = self.fresh()
                L.add("bind", tmp, " ".join([lean] + a), ret)
                return tmp, ret
            self.err(e, "call of `self.%s(..)`: function is neither translated nor a declared model function" % m)
        if m == "into":
            if e.args:
                self.err(e, ".into() with arguments")
            if ty in ("IS", "INT", "S"):
                return "intoScalar %s" % par(t), "S"
            if ty in ("IEXT", "EXT") and ty == "IEXT":
                return t, "EXT"
            if ty == "EXT":
                return "jjAffineFromExt %s" % par(t), "AFF"
            if ty == "TP":
                key = ("WitnessPoint", "from")
                if key not in self.w.fns:
                    self.err(e, "TorsionFreeWitnessPoint.into() before `From` is translated")
                return "%s %s" % (self.w.fns[key].lean, par(t)), "P"
            self.err(e, ".into() on a value of type %s" % (ty,))
        tname = {"K": "Constraint", "W": "Witness", "P": "WitnessPoint", "TP": "TorsionFreeWitnessPoint"}.get(ty)
        if tname and (tname, m) in self.w.fns:
            return self.call_fn(e, self.w.fns[(tname, m)], t, e.args, env, L, fx)
        if ty == "S" and m == "invert" and not e.args:
            return "finv? %s" % par(t), ("OPT", "S")
        if ty == "AFF" and not e.args and m in ("get_u", "get_v"):
            return "%s.%s" % (par(t), "1" if m == "get_u" else "2"), "S"
        if ty == "AFF" and not e.args and m == "is_on_curve":
            return "onCurve %s" % par(t), "BOOL"
        if ty == "EXT" and not e.args and m == "get_z":
            return "%s.z" % par(t), "S"
        if ty == "EXT" and not e.args and m == "is_on_curve":
            return "Ext.onCurve %s" % par(t), "BOOL"
        if ty == "EXT" and not e.args and m == "is_torsion_free":
            return "Ext.torsionFree %s" % par(t), "BOOL"
        if isinstance(ty, tuple) and ty[0] == "OPT":
            if m == "map" and len(e.args) == 1 and e.args[0].kind == "closure" and len(e.args[0].params) == 1:
                cl = e.args[0]
                env2 = dict(env)
                env2[cl.params[0]] = ty[1]
                L2 = Lines()
                bt, bty = self.expr(cl.body, env2, L2, fx)
                if not L2.items:
                    return "Option.map (fun %s => %s) %s" % (lv(cl.params[0]), bt, par(t)), ("OPT", bty)
                body = self.finish_cm(L2, bt, bty)
                tmp = self.fresh()
                L.add("bind", tmp, "optMapM %s (fun %s => do\n%s)" % (par(t), lv(cl.params[0]), "\n".join(indent(body, 4))),
                      ("OPT", bty))
                return tmp, ("OPT", bty)
            if m == "unwrap_or" and len(e.args) == 1:
                d, dty = self.expr(e.args[0], env, L, fx)
                if lean_ty(dty) != lean_ty(ty[1]):
                    self.err(e, "unwrap_or: type mismatch")
                return "Option.getD %s %s" % (par(t), par(d)), ty[1]
            if m == "expect" and len(e.args) == 1 and e.args[0].kind == "str":
                if ty[1] != "W":
                    self.err(e, ".expect on Option<%s> is outside the subset" % (ty[1],))
                return "expectWitness %s" % par(t), "W"
        self.err(e, "method `.%s(..)` on a value of type %s is outside the subset" % (m, ty))

    # ---------------------------------------------------------------------------------------------------- statements
    def finish_cm(self, L, text, ty):
        """lines of a do-block whose value is `text`"""
        if text is not None and L.last_bind_tmp(text):
            it = L.items.pop()
            return L.render() + [it[2]]
        if ty == "UNIT" and text in (None, "()"):
            if L.items and L.items[-1][0] == "bind" and L.items[-1][1] is None and L.items[-1][3] == "UNIT":
                return L.render()
            return L.render() + ["pure ()"]
        return L.render() + ["pure %s" % par(text)]

    def block(self, blk, env, mode, ret):
        """-> (lines, result text, type).  mode 'pure': lines are `let`s and the result is a term;
           mode 'cm': lines form a complete do-block (result text None)"""
        return self.stmts(blk.stmts, blk.tail, env, mode, ret, blk)

    def is_early_return(self, st):
        """`if COND { return Err(E); }`"""
        if st.kind not in ("ifstmt",):
            return False
        b = st.e.then
        return st.e.els is None and len(b.stmts) == 1 and b.tail is None and b.stmts[0].kind == "return"

    def stmts(self, sts, tail, env, mode, ret, node):
        L = Lines()
        fx = mode == "cm"
        for idx, st in enumerate(sts):
            k = st.kind
            if k == "dropped":
                L.add("comment", st.why)
                self.w.dropped.append((self.fn.name if self.fn else "?", st.why))
                continue
            if k == "let":
                t, ty = self.expr(st.e, env, L, fx)
                if st.ty is not None and not (isinstance(ty, tuple) and ty[0] in ("SLICE", "MSLICE")):
                    dt = rust_ty(st.ty, self.fn.generics if self.fn else {}, self.self_code)
                    if not compatible(ty, dt):
                        self.err(st, "declared type %s does not match the translated type %s" % (st.ty, ty))
                    ty = dt
                if isinstance(ty, tuple) and ty[0] == "MSLICE":
                    env[st.name] = ty           # alias of a prefix of X.coefficients: no Lean text
                    continue
                if isinstance(ty, tuple) and ty[0] == "DROPPED":
                    self.err(st, "value of an unmodelled call is used")
                if ty == "COMPOSER" and mode == "pure":
                    # `let mut slf = Self::uninitialized(); slf.f(..); ..; slf`  ->  run a CM block on it
                    if not st.mut or tail is None or tail.kind != "path" or tail.segs != [st.name]:
                        self.err(st, "a Composer value must be `let mut X = ..; X.f(..); ..; X`")
                    L.add("let", lv(st.name), t)
                    env2 = dict(env)
                    env2[st.name] = "COMPOSER"
                    body, _, _ = self.stmts(sts[idx + 1:], None, env2, "cm", "UNIT", node)
                    L.add("raw", "let m_ : CM Unit := do\n" + "\n".join(indent(body, 2)))
                    return L.render(), "(m_.run %s).2" % lv(st.name), "COMPOSER"
                if L.last_bind_tmp(t):
                    it = L.items.pop()
                    L.add("bind", lv(st.name), it[2], it[3])
                else:
                    L.add("let", lv(st.name), t)
                env[st.name] = ty
                if st.mut:
                    self.mutable.add(st.name)
                else:
                    self.mutable.discard(st.name)
                continue
            if k == "assign":
                self.assign(st, env, L, fx)
                continue
            if k == "expr" and st.e.kind == "try":
                # EXPR?;   -> the rest of the block runs in the `.ok` arm
                t, ty = self.expr(st.e.e, env, L, fx)
                if not (isinstance(ty, tuple) and ty[0] == "RES"):
                    self.err(st, "`?` on a non-Result")
                if not (isinstance(ret, tuple) and ret[0] == "RES"):
                    self.err(st, "`?` in a function that does not return a Result")
                rest, rt, rty = self.stmts(sts[idx + 1:], tail, dict(env), mode, ret, node)
                if mode == "cm":
                    L.add("raw", "match %s with\n| Except.error err_ => pure (Except.error err_)\n| Except.ok _ => do\n%s"
                          % (t, "\n".join(indent(rest, 2))))
                    return L.render(), None, ret
                txt = "match %s with\n| Except.error err_ => Except.error err_\n| Except.ok _ =>\n%s" % (
                    t, "\n".join(indent(rest + [rt], 2)))
                return L.render(), txt, ret
            if self.is_early_return(st):
                c, cty = self.expr(st.e.cond, env, L, fx)
                if cty != "BOOL":
                    self.err(st, "condition is not a boolean")
                rv, rvt = self.expr(st.e.then.stmts[0].e, env, Lines(), False)
                if not (isinstance(rvt, tuple) and rvt[0] == "RES" and isinstance(ret, tuple) and ret[0] == "RES"):
                    self.err(st, "early `return` of a non-Result")
                rest, rt, rty = self.stmts(sts[idx + 1:], tail, dict(env), mode, ret, node)
                if mode == "cm":
                    L.add("raw", "if %s then\n  pure %s\nelse do\n%s" % (c, par(rv), "\n".join(indent(rest, 2))))
                    return L.render(), None, ret
                txt = "if %s then\n  %s\nelse\n%s" % (c, rv, "\n".join(indent(rest + [rt], 2)))
                return L.render(), txt, ret
            if k == "ifstmt":
                self.if_stmt(st, env, L, mode)
                continue
            if k == "iflet":
                self.iflet_stmt(st, env, L)
                continue
            if k == "return":
                self.err(st, "`return` is supported only as `if COND { return Err(..); }`")
            if k == "expr":
                self.expr_stmt(st, env, L, fx)
                continue
            self.err(st, "statement kind `%s` is outside the subset" % k)
        # tail
        if mode == "cm":
            if tail is None:
                return self.finish_cm(L, None, "UNIT"), None, "UNIT"
            if tail.kind == "if" and tail.els is None:
                st = N("ifstmt", tail.line, e=tail)
                self.if_stmt(st, env, L, mode)
                return self.finish_cm(L, None, "UNIT"), None, "UNIT"
            t, ty = self.expr(tail, env, L, fx, expect=ret)
            if isinstance(ty, tuple) and ty[0] == "DROPPED":
                L.add("comment", ty[1])
                self.w.dropped.append((self.fn.name, ty[1]))
                return self.finish_cm(L, None, "UNIT"), None, "UNIT"
            return self.finish_cm(L, t, ty), None, ty
        if tail is None:
            return L.render(), "()", "UNIT"
        t, ty = self.expr(tail, env, L, fx, expect=ret)
        return L.render(), t, ty

    def assign(self, st, env, L, fx):
        lhs = st.lhs
        if lhs.kind == "path" and len(lhs.segs) == 1:
            nm = lhs.segs[0]
            if nm not in env:
                self.err(st, "assignment to unknown variable `%s`" % nm)
            if nm not in self.mutable:
                self.err(st, "assignment to immutable variable `%s`" % nm)
            t, ty = self.expr(st.rhs, env, L, fx)
            if lean_ty(ty) != lean_ty(env[nm]):
                self.err(st, "assignment changes the type of `%s`" % nm)
            if L.last_bind_tmp(t):
                it = L.items.pop()
                L.add("bind", lv(nm), it[2], it[3])
            else:
                L.add("let", lv(nm), t)
            return
        # X.has_public_input = e
        if lhs.kind == "field" and lhs.e.kind == "path" and len(lhs.e.segs) == 1 and env.get(lhs.e.segs[0]) == "K":
            x = lhs.e.segs[0]
            if x not in self.mutable:
                self.err(st, "field assignment on immutable `%s`" % x)
            if lhs.name != "has_public_input":
                self.err(st, "assignment to Constraint.%s is outside the subset" % lhs.name)
            t, ty = self.expr(st.rhs, env, L, fx)
            if ty != "BOOL":
                self.err(st, "has_public_input := non-boolean")
            L.add("let", lv(x), "{ %s with hasPi := %s }" % (lv(x), t))
            return
        # X.coefficients[i] = e / X.witnesses[i] = e
        if lhs.kind == "index":
            af = self.arr_field(lhs.e, env)
            if af is not None:
                x, f = af
                if x not in self.mutable:
                    self.err(st, "element assignment on immutable `%s`" % x)
                i, ity = self.expr(lhs.idx, env, L, fx)
                if ity != "USIZE":
                    self.err(st, "array index is not a usize")
                t, ty = self.expr(st.rhs, env, L, fx)
                if f == "coefficients":
                    if ty != "S":
                        self.err(st, "coefficient := non-scalar (%s)" % (ty,))
                    L.add("let", lv(x), "coeffSet %s %s %s" % (lv(x), par(i), par(t)))
                else:
                    if ty != "W":
                        self.err(st, "witness slot := non-witness (%s)" % (ty,))
                    L.add("let", lv(x), "witSet %s %s %s" % (lv(x), par(i), par(t)))
                return
        self.err(st, "assignment target is outside the subset")

    def expr_stmt(self, st, env, L, fx):
        e = st.e
        # mutator method on a Constraint variable:  X.set_witness(..);
        if e.kind == "mcall" and e.recv.kind == "path" and len(e.recv.segs) == 1 and env.get(e.recv.segs[0]) == "K" \
                and ("Constraint", e.name) in self.w.fns and self.w.fns[("Constraint", e.name)].mode == "mutator":
            x = e.recv.segs[0]
            if x not in self.mutable:
                self.err(st, "`&mut self` method on immutable `%s`" % x)
            info = self.w.fns[("Constraint", e.name)]
            a = self.args_for(e, e.args, info.params[1:], env, L, fx, e.name)
            L.add("let", lv(x), " ".join([info.lean, lv(x)] + a))
            return
        # DST.copy_from_slice(SRC)
        if e.kind == "mcall" and e.name == "copy_from_slice" and len(e.args) == 1:
            # (a) dst is an alias `&mut X.coefficients[..N]`
            if e.recv.kind == "path" and len(e.recv.segs) == 1 and isinstance(env.get(e.recv.segs[0]), tuple) \
                    and env[e.recv.segs[0]][0] == "MSLICE":
                _, x, hi = env[e.recv.segs[0]]
                if x not in self.mutable:
                    self.err(st, "copy into immutable `%s`" % x)
                s, sty = self.expr(e.args[0], env, L, fx)
                if not (isinstance(sty, tuple) and sty[0] == "SLICE"):
                    self.err(st, "copy_from_slice: source is not a coefficient slice")
                if sty[1] != hi:
                    self.err(st, "copy_from_slice: slice lengths `..%s` and `..%s` differ (Rust would panic)" % (hi, sty[1]))
                L.add("let", lv(x), "coeffPrefixSet %s %s %s" % (lv(x), par(hi), par(s)))
                return
            # (b) X.witnesses.copy_from_slice(&Y.witnesses)
            af = self.arr_field(e.recv, env)
            src = e.args[0].e if e.args[0].kind == "ref" else e.args[0]
            sf = self.arr_field(src, env)
            if af and sf and af[1] == "witnesses" and sf[1] == "witnesses":
                if af[0] not in self.mutable:
                    self.err(st, "copy into immutable `%s`" % af[0])
                L.add("let", lv(af[0]), "witsCopy %s %s" % (lv(af[0]), lv(sf[0])))
                return
            self.err(st, "this use of copy_from_slice is outside the subset")
        t, ty = self.expr(e, env, L, fx)
        if isinstance(ty, tuple) and ty[0] == "DROPPED":
            L.add("comment", ty[1])
            self.w.dropped.append((self.fn.name, ty[1]))
            return
        if L.last_bind_tmp(t):
            it = L.items.pop()
            L.add("bind", None if it[3] == "UNIT" else "_", it[2], it[3])
            return
        self.err(st, "expression statement without effect")

    def if_stmt(self, st, env, L, mode):
        e = st.e
        if mode != "cm":
            self.err(st, "`if` statement in a pure function is outside the subset")
        if e.els is not None:
            self.err(st, "`if .. else` as a statement is outside the subset")
        c, cty = self.expr(e.cond, env, L, True)
        if cty != "BOOL":
            self.err(st, "condition is not a boolean")
        before = set(self.mutable)
        for s in e.then.stmts:
            if s.kind == "assign":
                self.err(s, "assignment inside a conditional block is outside the subset")
        body, _, _ = self.stmts(e.then.stmts, e.then.tail, dict(env), "cm", "UNIT", e.then)
        self.mutable = before
        L.add("raw", "if %s then do\n%s\nelse pure ()" % (c, "\n".join(indent(body, 2))))

    def iflet_stmt(self, st, env, L):
        """`if let Some(v) = OPT { x = E; }`  (pure body, one assigned outer variable)"""
        s, sty = self.expr(st.scrut, env, Lines(), False)
        if not (isinstance(sty, tuple) and sty[0] == "OPT"):
            self.err(st, "`if let Some(..)` on a non-Option")
        b = st.body
        if b.tail is not None or len(b.stmts) != 1 or b.stmts[0].kind != "assign" or b.stmts[0].lhs.kind != "path":
            self.err(st, "`if let` body must be a single assignment `x = E;`")
        a = b.stmts[0]
        x = a.lhs.segs[0]
        if x not in env or x not in self.mutable:
            self.err(st, "`if let`: assignment to unknown / immutable `%s`" % x)
        env2 = dict(env)
        env2[st.var] = sty[1]
        t, ty = self.expr(a.rhs, env2, Lines(), False)
        if lean_ty(ty) != lean_ty(env[x]):
            self.err(st, "`if let`: assignment changes the type")
        L.add("let", lv(x), "match %s with\n  | some %s => %s\n  | none => %s" % (s, lv(st.var), t, lv(x)))


# ------------------------------------------------------------------------------------------------------------------
# driver
# ------------------------------------------------------------------------------------------------------------------
CS = "src/composer/constraint_system/"
F_CONSTRAINT, F_WITNESS, F_ECC = CS + "constraint.rs", CS + "witness.rs", CS + "ecc.rs"
F_GATE, F_COMPOSER = "src/composer/gate.rs", "src/composer.rs"
F_BITS, F_SELECT, F_POINT = "src/composer/bits.rs", "src/composer/select.rs", "src/composer/point.rs"

# order = dependency order (a callee must precede its callers; violated -> abort)
TARGETS = [
    ("fn", F_WITNESS, "Witness", None, "new"),
    ("fn", F_WITNESS, "Witness", None, "index"),
    ("const", F_WITNESS, "Witness", "ZERO"),
    ("const", F_WITNESS, "Witness", "ONE"),
    ("const", F_COMPOSER, "Composer", "ZERO"),
    ("const", F_COMPOSER, "Composer", "ONE"),
    ("views",),
    ("fn", F_CONSTRAINT, "Constraint", None, "new"),
    ("fn", F_CONSTRAINT, "Constraint", "Default", "default"),
    ("fn", F_CONSTRAINT, "Constraint", None, "has_public_input"),
    ("fn", F_CONSTRAINT, "Constraint", None, "from_external"),
    ("fn", F_CONSTRAINT, "Constraint", None, "set"),
    ("fn", F_CONSTRAINT, "Constraint", None, "set_witness"),
    ("fn", F_CONSTRAINT, "Constraint", None, "coeff"),
    ("fn", F_CONSTRAINT, "Constraint", None, "witness"),
    ("fn", F_CONSTRAINT, "Constraint", None, "mult"),
    ("fn", F_CONSTRAINT, "Constraint", None, "left"),
    ("fn", F_CONSTRAINT, "Constraint", None, "right"),
    ("fn", F_CONSTRAINT, "Constraint", None, "output"),
    ("fn", F_CONSTRAINT, "Constraint", None, "fourth"),
    ("fn", F_CONSTRAINT, "Constraint", None, "constant"),
    ("fn", F_CONSTRAINT, "Constraint", None, "public"),
    ("fn", F_CONSTRAINT, "Constraint", None, "a"),
    ("fn", F_CONSTRAINT, "Constraint", None, "b"),
    ("fn", F_CONSTRAINT, "Constraint", None, "c"),
    ("fn", F_CONSTRAINT, "Constraint", None, "d"),
    ("fn", F_CONSTRAINT, "Constraint", None, "arithmetic"),
    ("fn", F_CONSTRAINT, "Constraint", None, "range"),
    ("fn", F_CONSTRAINT, "Constraint", None, "logic"),
    ("fn", F_CONSTRAINT, "Constraint", None, "logic_xor"),
    ("fn", F_CONSTRAINT, "Constraint", None, "group_add_fixed_base"),
    ("fn", F_CONSTRAINT, "Constraint", None, "group_add_variable_base"),
    ("fn", F_ECC, "WitnessPoint", None, "new"),
    ("fn", F_ECC, "WitnessPoint", None, "x"),
    ("fn", F_ECC, "WitnessPoint", None, "y"),
    ("fn", F_ECC, "TorsionFreeWitnessPoint", None, "new_unchecked"),
    ("fn", F_ECC, "TorsionFreeWitnessPoint", None, "x"),
    ("fn", F_ECC, "TorsionFreeWitnessPoint", None, "y"),
    ("fn", F_ECC, "WitnessPoint", "From<TorsionFreeWitnessPoint>", "from"),
    ("fn", F_COMPOSER, "Composer", "ops::Index<Witness>", "index"),
    ("fn", F_COMPOSER, "Composer", None, "append_witness_internal"),
    ("fn", F_COMPOSER, "Composer", None, "append_custom_gate_internal"),
    ("fn", F_COMPOSER, "Composer", None, "uninitialized"),
    ("fn", F_COMPOSER, "Composer", None, "append_witness"),
    ("fn", F_COMPOSER, "Composer", None, "append_custom_gate"),
    ("fn", F_COMPOSER, "Composer", None, "append_gate"),
    ("fn", F_COMPOSER, "Composer", None, "append_evaluated_output"),
    ("fn", F_COMPOSER, "Composer", None, "assert_equal"),
    ("fn", F_COMPOSER, "Composer", None, "assert_equal_constant"),
    ("fn", F_COMPOSER, "Composer", None, "gate_add"),
    ("fn", F_COMPOSER, "Composer", None, "gate_mul"),
    ("fn", F_COMPOSER, "Composer", None, "append_constant"),
    ("fn", F_COMPOSER, "Composer", None, "append_public"),
    ("fn", F_COMPOSER, "Composer", None, "append_dummy_gates"),
    ("fn", F_COMPOSER, "Composer", None, "initialized"),
    ("fn", F_BITS, "Composer", None, "component_boolean"),
    ("fn", F_SELECT, "Composer", None, "component_select"),
    ("fn", F_SELECT, "Composer", None, "component_select_one"),
    ("fn", F_SELECT, "Composer", None, "component_select_zero"),
    ("const", F_POINT, None, "EIGHT_INV"),
    ("fn", F_POINT, None, None, "reject_degenerate_z"),
    ("fn", F_POINT, "Composer", None, "append_affine_point"),
    ("fn", F_POINT, "Composer", None, "append_point"),
    ("fn", F_POINT, "Composer", None, "append_constant_point"),
    ("fn", F_POINT, "Composer", None, "append_public_point"),
    ("fn", F_POINT, "Composer", None, "assert_equal_point"),
    ("fn", F_POINT, "Composer", None, "assert_equal_public_point"),
    ("fn", F_POINT, "Composer", None, "add_point_gates"),
    ("fn", F_POINT, "Composer", None, "component_add_point"),
    ("fn", F_POINT, "Composer", None, "component_neg_point"),
    ("fn", F_POINT, "Composer", None, "component_sub_point"),
    ("fn", F_POINT, "Composer", None, "select_identity_gates"),
    ("fn", F_POINT, "Composer", None, "component_select_identity"),
    ("fn", F_POINT, "Composer", None, "component_select_point"),
    ("fn", F_POINT, "Composer", None, "assert_torsion_free_gates"),
    ("fn", F_POINT, "Composer", None, "assert_torsion_free_point"),
]
# Rust functions that are NOT translated and stand for the model's definition when called from translated code
# (tied by the differential correspondence only).  Empty: every callee of a translated function is itself translated.
MODEL_CALLEES = {}

R_MOD = 0x73eda753299d7d483339d80809a1d80553bda402fffe5bfeffffffff00000001

PRELUDE_FIXED = r'''
/-! ## Part 0 — meaning of the Rust primitives of the supported subset (fixed text of the translator) -/

/-- `T: Into<BlsScalar>`: `.into()`, `BlsScalar::from(n)`, `BlsScalar::one()`, `BlsScalar::zero()` — the canonical
    representative of the field element. -/
def intoScalar (v : Nat) : Nat := v %% R

/-- little-endian 64-bit limbs -/
def limbsLE : List Nat → Nat
  | [] => 0
  | l :: ls => l + 2 ^ 64 * limbsLE ls

/-- `2^-256 mod r` (checked: `ComposerSource.mont_rinv_ok`). -/
def MONT_RINV : Nat := %(rinv)s

/-- `BlsScalar([l0, l1, l2, l3])`: the raw limbs are the Montgomery form `v·2^256 mod r` of the value `v`. -/
def fromMontLimbs (l : List Nat) : Nat := fmul (limbsLE l) MONT_RINV

/-- `JubJubScalar::from_raw([l0, l1, l2, l3])`: the integer given by the limbs, reduced mod `r_J`. -/
def jubjubScalarFromRaw (l : List Nat) : Nat := limbsLE l %% RJ

/-- `JubJubAffine::from(ext)` / `ext.into()`: the projection `(U/Z, V/Z)`; callers reject `Z = 0` first (dusk-jubjub
    aborts there; the total model returns the identity). -/
def jjAffineFromExt (e : Ext) : Pt := (e.toAffine?).getD Pt.id

/-- `Option<Witness>::expect(msg)`: `None` panics in Rust; the total model returns witness 0
    (`ComposerTie.gate_add_never_panics`: the `None` arm is dead where the source uses it). -/
def expectWitness (o : Option Nat) : Nat := o.getD 0

/-- `opt.map(|x| <effectful body>)` -/
def optMapM {α β : Type} (o : Option α) (f : α → CM β) : CM (Option β) :=
  match o with
  | some a => do let b ← f a; pure (some b)
  | none => pure none

/-! state primitives: `Vec` / `HashMap` fields of `Composer` (`constraints` = `gates`, `witnesses` = `wit`,
    `public_inputs` = `pis`: the model keeps the sparse map as an insertion-ordered array of distinct rows) -/
def witnessesLen : CM Nat := fun c => (c.wit.size, c)
def witnessesPush (v : Nat) : CM Unit := fun c => ((), { c with wit := c.wit.push v })
/-- `self.witnesses[i]`; out of bounds panics in Rust, reads 0 in the total model -/
def witnessesIndex (i : Nat) : CM Nat := fun c => (c.wit.getD i 0, c)
def constraintsLen : CM Nat := fun c => (c.gates.size, c)
def constraintsPush (g : Gate) : CM Unit := fun c => ((), { c with gates := c.gates.push g })
def publicInputsInsert (k v : Nat) : CM Unit := fun c => ((), { c with pis := c.pis.push (k, v) })
'''


def mont_rinv():
    return pow(pow(2, 256, R_MOD), R_MOD - 2, R_MOD)


def enum_lean(name, variants):
    out = ["/-- `enum %s` (discriminants from the source) -/" % name,
           "inductive %s where" % name]
    out += ["  | %s" % v for v, _ in variants]
    out += ["  deriving DecidableEq, Repr", "",
            "def %s.toNat : %s → Nat" % (name, name)]
    out += ["  | .%s => %d" % (v, n) for v, n in variants]
    out += ["", "def %s.all : List %s := [%s]" % (name, name, ", ".join("." + v for v, _ in variants)), ""]
    return out


def views_lean(world):
    sel, wires = world.selectors, world.wires
    o = ["/-! ## the Rust arrays `coefficients` / `witnesses` viewed on the model's `Constraint` record:",
         "     slot `i` is the record field named after the selector / wire whose discriminant is `i` -/",
         "def getSel (s : Constraint) : Selector → Nat"]
    o += ["  | .%s => s.%s" % (v, SELECTOR_FIELD[v]) for v, _ in sel]
    o += ["def setSel (s : Constraint) (v : Nat) : Selector → Constraint"]
    o += ["  | .%s => { s with %s := v }" % (v, SELECTOR_FIELD[v]) for v, _ in sel]
    o += ["def selOfIndex (i : Nat) : Option Selector := Selector.all.find? (fun r => r.toNat == i)",
          "/-- `coefficients[i]` (out of bounds panics in Rust; reads 0 here) -/",
          "def coeffGet (s : Constraint) (i : Nat) : Nat := match selOfIndex i with | some r => getSel s r | none => 0",
          "/-- `coefficients[i] = v` -/",
          "def coeffSet (s : Constraint) (i v : Nat) : Constraint := match selOfIndex i with | some r => setSel s v r | none => s",
          "/-- `&s.coefficients[..n]` -/",
          "def coeffPrefix (s : Constraint) (n : Nat) : List Nat := (List.range n).map (coeffGet s)",
          "/-- `(&mut s.coefficients[..n]).copy_from_slice(l)` -/",
          "def coeffPrefixSet (s : Constraint) (n : Nat) (l : List Nat) : Constraint :=",
          "  (List.range n).foldl (fun acc i => coeffSet acc i (l.getD i 0)) s",
          "def getWire (s : Constraint) : WiredWitness → Nat"]
    o += ["  | .%s => s.%s" % (v, WIRE_FIELD[v]) for v, _ in wires]
    o += ["def setWire (s : Constraint) (w : Nat) : WiredWitness → Constraint"]
    o += ["  | .%s => { s with %s := w }" % (v, WIRE_FIELD[v]) for v, _ in wires]
    o += ["def wireOfIndex (i : Nat) : Option WiredWitness := WiredWitness.all.find? (fun r => r.toNat == i)",
          "def witGet (s : Constraint) (i : Nat) : Nat := match wireOfIndex i with | some r => getWire s r | none => 0",
          "def witSet (s : Constraint) (i w : Nat) : Constraint := match wireOfIndex i with | some r => setWire s w r | none => s",
          "/-- `dst.witnesses.copy_from_slice(&src.witnesses)` (both arrays have length `Constraint::WITNESSES`) -/",
          "def witsCopy (dst src : Constraint) : Constraint :=",
          "  (List.range RConstraint.WITNESSES).foldl (fun acc i => witSet acc i (witGet src i)) dst",
          "/-- `Constraint { coefficients, witnesses, has_public_input }` -/",
          "def mkConstraint (coeffs wits : List Nat) (hp : Bool) : Constraint :="]
    fields = ["%s := coeffs.getD (Selector.toNat .%s) 0" % (SELECTOR_FIELD[v], v) for v, _ in sel]
    fields += ["%s := wits.getD (WiredWitness.toNat .%s) 0" % (WIRE_FIELD[v], v) for v, _ in wires]
    o += ["  { " + ",\n    ".join(fields) + ",\n    hasPi := hp }", ""]
    return o


def norm(t):
    return t.replace(" ", "")


def check_structs(files, world):
    c = files[F_CONSTRAINT]
    world.selectors = c.find_enum("Selector")
    world.wires = c.find_enum("WiredWitness")
    if set(v for v, _ in world.selectors) != set(SELECTOR_FIELD):
        fail("enum Selector: variants %s differ from the model's coefficient fields %s" % (
            sorted(v for v, _ in world.selectors), sorted(SELECTOR_FIELD)))
    if set(v for v, _ in world.wires) != set(WIRE_FIELD):
        fail("enum WiredWitness: variants %s differ from the model's wires" % sorted(v for v, _ in world.wires))
    for nm, vs in (("Selector", world.selectors), ("WiredWitness", world.wires)):
        if len(set(n for _, n in vs)) != len(vs):
            fail("enum %s: duplicate discriminants" % nm)
    st = [(f, norm(t)) for f, t in c.find_struct("Constraint")]
    if st != CONSTRAINT_STRUCT:
        fail("struct Constraint changed: %s (expected %s)" % (st, CONSTRAINT_STRUCT))
    g = dict((f, norm(t)) for f, t in files[F_GATE].find_struct("Gate"))
    if g != GATE_FIELD_TYPES:
        fail("struct Gate changed: fields %s differ from the model's Gate" % sorted(set(g.items()) ^ set(GATE_FIELD_TYPES.items())))
    cp = dict((f, norm(t)) for f, t in files[F_COMPOSER].find_struct("Composer"))
    if cp != COMPOSER_FIELD_TYPES:
        fail("struct Composer changed: %s" % sorted(set(cp.items()) ^ set(COMPOSER_FIELD_TYPES.items())))
    if [(f, norm(t)) for f, t in files[F_WITNESS].find_struct("Witness")] != [("index", "usize")]:
        fail("struct Witness changed")
    if [(f, norm(t)) for f, t in files[F_ECC].find_struct("WitnessPoint")] != [("x", "Witness"), ("y", "Witness")]:
        fail("struct WitnessPoint changed")
    if [(f, norm(t)) for f, t in files[F_ECC].find_struct("TorsionFreeWitnessPoint")] != [("0", "WitnessPoint")]:
        fail("struct TorsionFreeWitnessPoint changed")


def translate_fn(world, sf, type_name, trait, name):
    ast = sf.find_fn(type_name, trait, name)
    self_code = IMPL_TYPE.get(type_name) if type_name else None
    if type_name and self_code is None:
        fail("impl type %s unknown" % type_name)
    for g, b in ast.generics.items():
        if b.startswith("const"):
            fail("%s: const generics are outside the subset" % name)
    params, env, mutable = [], {}, set()
    self_kind = None
    for (pn, pt, mut) in ast.params:
        if pn == "self":
            self_kind = pt
            if self_code == "COMPOSER":
                env["self"] = "COMPOSER"
            else:
                params.append(("self", self_code))
                env["self"] = self_code
                if pt in ("&mut self", "mut self"):
                    mutable.add("self")
            continue
        ty = rust_ty(pt, ast.generics, self_code)
        params.append((pn, ty))
        env[pn] = ty
        if mut:
            mutable.add(pn)
    ret = rust_ty(ast.ret, ast.generics, self_code) if ast.ret else "UNIT"
    if self_code == "COMPOSER" and self_kind in ("&mut self", "&self"):
        mode = "cm"
    elif self_kind == "&mut self":
        if ret != "UNIT":
            fail("%s: `&mut self` method with a result is outside the subset" % name)
        mode = "mutator"
    elif self_code == "COMPOSER" and self_kind is not None:
        fail("%s: Composer taken by value is outside the subset" % name)
    else:
        mode = "pure"
    lean = "%s.%s" % (IMPL_NS[type_name], lv(name)) if type_name else lv(name)
    key = (type_name, name)
    if key in world.fns:
        fail("function %s::%s translated twice" % key)
    tr = FnTranslator(world, sf.rel, type_name, ast, self_code)
    tr.mutable = mutable
    tr.ret = ret
    lines, res, ty = tr.block(ast.body, env, "cm" if mode == "cm" else "pure", ret)
    sig = " ".join("(%s : %s)" % (lv(pn), lean_ty(pt)) for pn, pt in params)
    origin = "`%s` — `%s%s::%s`" % (sf.rel, (trait + " for ") if trait else "", type_name or "(free fn)", name)
    if mode == "cm":
        if not compatible(ty, ret):
            fail("%s: body has type %s, signature says %s" % (name, ty, ret))
        text = "/-- %s -/\ndef %s %s : CM %s := do\n%s" % (origin, lean, sig, par(lean_ty(ret)), "\n".join(indent(lines)))
    else:
        if mode == "mutator":
            if res != "()":
                fail("%s: `&mut self` method with a tail expression" % name)
            res, ty, ret = lv("self"), self_code, self_code
        if not compatible(ty, ret):
            fail("%s: body has type %s, signature says %s" % (name, ty, ret))
        text = "/-- %s -/\ndef %s %s : %s :=\n%s" % (origin, lean, sig, lean_ty(ret), "\n".join(indent(lines + [res])))
    world.fns[key] = FnInfo(key, lean, params, ret, mode, ast, self_code, sf.rel)
    return re.sub(r" +:", " :", text.replace("  :", " :")) if not params else text


def translate_const(world, sf, type_name, name):
    tyt, e = sf.find_const(type_name, name)
    self_code = IMPL_TYPE.get(type_name) if type_name else None
    ty = rust_ty(tyt, {}, self_code)
    tr = FnTranslator(world, sf.rel, type_name, None, self_code)
    t, ety = tr.expr(e, {}, Lines(), False)
    if not compatible(ety, ty):
        fail("const %s: value of type %s, declared %s" % (name, ety, ty))
    lean = "%s.%s" % (IMPL_NS[type_name], name) if type_name else name
    world.consts[(type_name, name)] = (lean, ty)
    return "/-- `%s` — `const %s%s` -/\ndef %s : %s := %s" % (sf.rel, (type_name + "::") if type_name else "", name, lean, lean_ty(ty), t)


def main():
    if len(sys.argv) != 3:
        print("usage: rs2lean_composer.py <repo> <out.lean>")
        sys.exit(2)
    repo, out = sys.argv[1], sys.argv[2]
    files = {}
    for rel in (F_CONSTRAINT, F_WITNESS, F_ECC, F_GATE, F_COMPOSER, F_BITS, F_SELECT, F_POINT):
        files[rel] = SourceFile(repo, rel)
    world = World()
    world.model_callees = dict(MODEL_CALLEES)
    check_structs(files, world)
    chunks = []
    chunks += enum_lean("Selector", world.selectors)
    chunks += enum_lean("WiredWitness", world.wires)
    # Constraint::COEFFICIENTS / WITNESSES are needed by the array views
    for nm in ("COEFFICIENTS", "WITNESSES"):
        chunks += [translate_const(world, files[F_CONSTRAINT], "Constraint", nm), ""]
    nfn = ncst = 0
    for tg in TARGETS:
        if tg[0] == "views":
            chunks += views_lean(world)
        elif tg[0] == "const":
            chunks += [translate_const(world, files[tg[1]], tg[2], tg[3]), ""]
            ncst += 1
        else:
            chunks += [translate_fn(world, files[tg[1]], tg[2], tg[3], tg[4]), ""]
            nfn += 1
    unused = set(world.model_callees) - world.used_model_callees
    notes = ["/-! ## notes of this run",
             "  translated: %d functions, %d constants, 2 enums; structs Constraint / Gate / Composer / Witness / WitnessPoint /"
             " TorsionFreeWitnessPoint checked field by field." % (nfn, ncst + 2)]
    if world.used_model_callees:
        notes.append("  untranslated callees standing for the model's definition: " +
                     ", ".join("%s::%s -> %s" % (k[0], k[1], world.model_callees[k][0]) for k in sorted(world.used_model_callees)))
    else:
        notes.append("  untranslated callees standing for the model's definition: none")
    notes.append("  dropped on purpose (no effect on the model state):")
    for fn, why in world.dropped:
        notes.append("    %s: %s" % (fn, why))
    notes.append("-/")
    hdr = ("/- GENERATED by tools/rs2lean_composer.py from src/composer.rs, src/composer/{bits,select,point,gate}.rs and\n"
           "   src/composer/constraint_system/{constraint,witness,ecc}.rs of /repo — do not edit.\n"
           "   Every composer gadget of the supported subset as a definition in the model's composer monad `CM`;\n"
           "   `Plonk/Proofs/ComposerSource.lean` proves each of them equal to the hand-written model. -/\n"
           "import Plonk.Model.Composer\n\nset_option linter.constructorNameAsVariable false\nset_option linter.unusedVariables false\n\n"
           "namespace Plonk.GeneratedComposer\nopen Plonk\n")
    text = hdr + (PRELUDE_FIXED % {"rinv": hex(mont_rinv())}) + "\n/-! ## Part 1 — translated from the source -/\n\n" + \
        "\n".join(chunks) + "\n" + "\n".join(notes) + "\n\nend Plonk.GeneratedComposer\n"
    old = open(out).read() if os.path.exists(out) else None
    if old != text:
        with open(out, "w") as f:
            f.write(text)
    print("rs2lean_composer: %d functions, %d constants -> %s%s" % (nfn, ncst + 2, out, "" if old != text else " (unchanged)"))


if __name__ == "__main__":
    try:
        main()
    except TranslateError as e:
        print("rs2lean_composer: TRANSLATION FAILED: %s" % e)
        sys.exit(3)
