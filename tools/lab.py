#!/usr/bin/env python3
"""Run checks against a seeded change in an isolated LAB (a copy of /verif + a scratch worktree of /repo), so that
/repo and /verif themselves are not touched and ordinary checks can keep running meanwhile.

  python3 tools/lab.py <seeded-id> [C16 C01 ...] [--tier quick] [--keep]

The lab lives under /tmp/lab/<id>/{verif,repo}; the harness crates' path dependency is redirected to the scratch
worktree and VERIF_REPO points the translators at it.  Verdicts are merged into seeded/<id>/results.json (of the real
/verif).  The registered MANIFEST commands never use this tool: they always run in /verif against /repo.
"""
import json, os, re, shutil, subprocess, sys, time
VERIF = os.path.dirname(os.path.dirname(os.path.abspath(__file__)))
REPO = "/repo"


def sh(cmd, **kw):
    return subprocess.run(cmd, text=True, **kw)


def main():
    args = [a for a in sys.argv[1:] if not a.startswith("--")]
    keep = "--keep" in sys.argv
    tier = "quick"
    if "--tier" in sys.argv:
        tier = sys.argv[sys.argv.index("--tier") + 1]
        args.remove(tier)
    sid = args[0]
    d = os.path.join(VERIF, "seeded", sid)
    patch = os.path.join(d, "patch.diff") if os.path.isdir(d) else sid  # a bare patch file is accepted too
    meta = json.load(open(os.path.join(d, "meta.json"))) if os.path.isdir(d) else {}
    props = args[1:] or [meta["property"]]
    lab = os.path.join("/tmp/lab", re.sub(r"[^A-Za-z0-9_.-]", "_", os.path.basename(sid)))
    lv, lr = os.path.join(lab, "verif"), os.path.join(lab, "repo")
    os.makedirs(lab, exist_ok=True)
    if os.path.isdir(lr):
        sh(["git", "-C", REPO, "worktree", "remove", "--force", lr])
    sh(["git", "-C", REPO, "worktree", "add", "--detach", lr, "HEAD"], check=True, stdout=subprocess.DEVNULL,
       stderr=subprocess.DEVNULL)
    res = {}
    try:
        sh(["git", "-C", lr, "apply", patch], check=True)
        for attempt in range(3):
            # exit status 24 = "some files vanished" (a check running in /verif meanwhile): retry
            rr = sh(["rsync", "-a", "--delete", "--exclude", ".git", "--exclude", "work", "--exclude", "replay",
                     VERIF + "/", lv + "/"])
            if rr.returncode == 0:
                break
        if rr.returncode not in (0, 24):
            raise RuntimeError("rsync failed: %s" % rr.returncode)
        for c in ("harness/Cargo.toml", "harness-alloc/Cargo.toml"):
            p = os.path.join(lv, c)
            s = open(p).read().replace('path = "/repo"', 'path = "%s"' % lr)
            open(p, "w").write(s)
        env = dict(os.environ, VERIF_REPO=lr)
        for p in props:
            t0 = time.time()
            r = sh([sys.executable, os.path.join(lv, "tools", "run_check.py"), "--prop", p, "--tier", tier],
                   capture_output=True, cwd=lv, env=env)
            lines = [l.replace(lv, "<lab>") for l in r.stdout.split("\n")
                     if l.startswith("VIOLATION") or l.startswith("OK") or l.startswith("KNOWN")]
            lines.sort(key=lambda l: 0 if l.startswith("VIOLATION") else 1)
            keys = []
            rd = os.path.join(lv, "replay", p)
            if os.path.isdir(rd):
                keys = sorted(os.listdir(rd))[:12]
            res[p] = {"exit": r.returncode, "lines": lines[:6], "replays": keys, "wall_s": round(time.time() - t0, 1),
                      "tier": tier}
            print(p, r.returncode, lines[:3], keys[:6], flush=True)
    finally:
        if not keep:
            sh(["git", "-C", REPO, "worktree", "remove", "--force", lr])
            shutil.rmtree(lab, ignore_errors=True)
    if os.path.isdir(d):
        out = os.path.join(d, "results.json")
        old = json.load(open(out)) if os.path.exists(out) else {}
        old.update(res)
        json.dump(old, open(out, "w"), indent=1)


if __name__ == "__main__":
    main()
