#!/bin/sh
# Build the whole framework from files on disk only (offline).
set -e
cd "$(dirname "$0")/.."
export CARGO_NET_OFFLINE=true
python3 tools/extract.py
python3 tools/rs2lean.py /repo lean/Plonk/GeneratedWidgets.lean
python3 tools/rs2lean_composer.py /repo lean/Plonk/GeneratedComposer.lean
python3 tools/rs2lean_prover.py /repo lean/Plonk/GeneratedProver.lean
python3 tools/gen_dispatch.py harness/src/dispatch.rs
# every property module (so that no single check pays for a cold proof build) + the driver
PROPS=$(ls lean/Plonk/Props/*.lean | sed 's#lean/Plonk/Props/\(.*\)\.lean#Plonk.Props.\1#')
(cd lean && lake build Plonk $PROPS driver)
(cd harness && cp -n /repo/Cargo.lock Cargo.lock 2>/dev/null || true; cargo build --offline --release && cargo build --offline --profile checked)
(cd harness-alloc && cp -n /repo/Cargo.lock Cargo.lock 2>/dev/null || true; cargo build --offline --release)
echo "setup ok"
