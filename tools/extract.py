#!/usr/bin/env python3
"""
Translator (small): re-read /repo/src on every run and regenerate
lean/Plonk/Generated.lean with every numeric constant, bound and ordering the
theorems depend on.  A missing anchor is a broken tie (exit 3), never a default.

usage: extract.py [--repo /repo] [--out lean/Plonk/Generated.lean] [--json out.json]
"""
import argparse, json, os, re, sys

def read(repo, rel):
    with open(os.path.join(repo, rel)) as f:
        return f.read()

class Missing(Exception):
    pass

def one(pat, text, what, flags=re.S):
    m = re.search(pat, text, flags)
    if not m:
        raise Missing(what)
    return m

def limbs_to_int(limbs):
    v = 0
    for i, l in enumerate(limbs):
        v |= int(l.replace("_", ""), 16 if l.lower().startswith("0x") else 10) << (64 * i)
    return v

def limbs(text, name, what):
    m = one(name + r"[^=]*=\s*[A-Za-z_:]*\(?\[\s*([^\]]+)\]", text, what)
    parts = [p.strip() for p in m.group(1).split(",") if p.strip()]
    return limbs_to_int(parts)

def usize_const(text, name, what):
    m = one(r"const\s+" + name + r"\s*:\s*usize\s*=\s*([^;]+);", text, what)
    expr = m.group(1).strip()
    return expr

def eval_usize(expr, env):
    # tiny evaluator for `1 << 12`, `A - (B + 1)`, literals
    e = expr.replace("_", "") if re.fullmatch(r"[0-9_]+", expr) else expr
    names = re.findall(r"[A-Z][A-Z0-9_]+", e)
    for n in sorted(set(names), key=len, reverse=True):
        if n not in env:
            raise Missing("unknown name %s in %r" % (n, expr))
        e = re.sub(r"\b%s\b" % n, str(env[n]), e)
    if not re.fullmatch(r"[0-9\s+\-*()<]+", e):
        raise Missing("cannot evaluate %r" % expr)
    return int(eval(e, {"__builtins__": {}}))

R = 0x73eda753299d7d483339d80809a1d80553bda402fffe5bfeffffffff00000001

def extract(repo):
    out = {}   # name -> int
    lists = {} # name -> list of strings
    # ---- fixed_base.rs
    fb = read(repo, "src/composer/fixed_base.rs")
    env = {}
    for n in ["JUBJUB_SCALAR_BITS", "FIXED_BASE_SIGNED_DIGIT_ROUNDS", "FIXED_BASE_MAX_SOUND_WIDTH"]:
        env[n] = eval_usize(usize_const(fb, n, n), env)
    env["FIXED_BASE_LEADING_ZERO_ROUNDS"] = eval_usize(
        usize_const(fb, "FIXED_BASE_LEADING_ZERO_ROUNDS", "FIXED_BASE_LEADING_ZERO_ROUNDS"), env)
    out.update(env)
    one(r"if i == FIXED_BASE_LEADING_ZERO_ROUNDS\s*\{\s*leading_accumulator = accumulated_bit;", fb,
        "fixed_base: leading accumulator is taken at round FIXED_BASE_LEADING_ZERO_ROUNDS")
    one(r"self\.range_check\(scalar, JUBJUB_SCALAR_BITS\);", fb, "fixed_base: scalar range check")
    one(r"self\.range_check\(distance_from_max, JUBJUB_SCALAR_BITS\);", fb, "fixed_base: distance range check")
    one(r"let width = 2;", fb, "fixed_base: wnaf width 2")
    # ---- point.rs
    pt = read(repo, "src/composer/point.rs")
    out["EIGHT_INV"] = limbs(pt, r"const EIGHT_INV: JubJubScalar", "EIGHT_INV limbs")
    m = one(r"component_decomposition::<(\d+)>\(jubjub\)", pt, "mul_point decomposition width")
    out["MUL_POINT_BITS"] = int(m.group(1))
    # ---- composer.rs : MINUS_ONE in Montgomery form
    cp = read(repo, "src/composer.rs")
    out["MINUS_ONE_MONT"] = limbs(cp, r"const MINUS_ONE: BlsScalar", "MINUS_ONE limbs")
    # dummy gates constants
    m = one(r"fn append_dummy_gates.*?BlsScalar::from\((\d+)\).*?BlsScalar::from\((\d+)\).*?BlsScalar::from\((\d+)\).*?-BlsScalar::from\((\d+)\)", cp, "dummy gate witnesses")
    lists["DUMMY_WITNESSES"] = [m.group(i) for i in range(1, 5)]
    # ---- widths / bounds
    rg = read(repo, "src/composer/range.rs")
    m = one(r"BITS <= (\d+),", rg, "range_bits bound"); out["RANGE_MAX_BITS"] = int(m.group(1))
    m = one(r"cmp::min\(BIT_PAIRS \* 2, (\d+)\)", rg, "component_range clamp"); out["RANGE_PAIRS_CLAMP_BITS"] = int(m.group(1))
    lg = read(repo, "src/composer/logic.rs")
    m = one(r"BIT_PAIRS <= (\d+),", lg, "logic bound"); out["LOGIC_MAX_PAIRS"] = int(m.group(1))
    tr = read(repo, "src/composer/truncate.rs")
    m = one(r"N <= (\d+),", tr, "truncate bound"); out["TRUNCATE_MAX_BITS"] = int(m.group(1))
    ms = re.findall(r"let high_bits = (\d+) - num_bits;", tr)
    if len(ms) != 2 or ms[0] != ms[1]:
        raise Missing("truncate: high_bits = 255 - num_bits (twice)")
    out["SPLIT_TOTAL_BITS"] = int(ms[0])
    bt = read(repo, "src/composer/bits.rs")
    m = one(r"assert!\(0 < N && N <= (\d+)\);", bt, "decomposition bound"); out["DECOMP_MAX_BITS"] = int(m.group(1))
    # ---- compiler / srs
    cm = read(repo, "src/compiler.rs")
    out["CIRCUIT_SIZE_PADDING"] = eval_usize(usize_const(cm, "CIRCUIT_SIZE_PADDING", "CIRCUIT_SIZE_PADDING"), {})
    srs = read(repo, "src/commitment_scheme/kzg10/srs.rs")
    out["ADDED_BLINDING_DEGREE"] = eval_usize(usize_const(srs, "ADDED_BLINDING_DEGREE", "ADDED_BLINDING_DEGREE"), {})
    # ---- permutation constants
    pc = read(repo, "src/composer/permutation/constants.rs")
    for k in ["K1", "K2", "K3"]:
        out[k] = limbs(pc, r"const %s: BlsScalar" % k, k)
    # ---- fft thresholds
    dm = read(repo, "src/fft/domain.rs")
    for n in ["PARALLEL_FINAL_FFT_MIN_LEN", "PARALLEL_FINAL_FFT_MIN_THREADS", "PARALLEL_FFT_MIN_LEN", "PARALLEL_FFT_MIN_CHUNKS"]:
        out[n] = eval_usize(usize_const(dm, n, n), {})
    # ---- compress
    cs = read(repo, "src/composer/compress.rs")
    for n in ["PACKED_FIXED_BYTES", "PACKED_BYTES_PER_CONSTRAINT", "SELECTORS_PER_POLYNOMIAL"]:
        out[n] = eval_usize(usize_const(cs, n, n), {})
    # ---- proof.rs
    pf = read(repo, "src/proof_system/proof.rs")
    for n in ["V_MAX_DEGREE", "V_MAX_DEGREE_LEGACY"]:
        out[n] = eval_usize(usize_const(pf, n, n), {})
    # ---- transcript label sequences (order read from the source)
    pv = read(repo, "src/compiler/prover.rs")
    body = one(r"fn prove_inner.*?\n    \}\n", pv, "prove_inner body").group(0)
    seq = re.findall(r"transcript\s*\.\s*(append_scalar|append_commitment|challenge_scalar)\(\s*b\"([^\"]+)\"", body)
    seq = [("pi" if l == "pi" else l, k) for (k, l) in seq]
    lists["PROVER_TRANSCRIPT"] = ["%s:%s" % (k[0] if False else {"append_scalar": "s", "append_commitment": "c", "challenge_scalar": "ch"}[k], l) for (l, k) in seq]
    wd = read(repo, "src/proof_system/widget.rs")
    sb = one(r"fn seed_transcript_inner.*?\n        \}\n", wd, "seed_transcript_inner body").group(0)
    lists["SEED_TRANSCRIPT"] = re.findall(r"b\"([^\"]+)\"", sb)
    vb = one(r"pub\(crate\) fn verify\(.*?pub\(crate\) fn verify_legacy", pf, "Proof::verify body").group(0)
    seqv = re.findall(r"transcript\s*\.\s*(append_scalar|append_commitment|challenge_scalar)\(\s*b\"([^\"]+)\"", vb)
    lists["VERIFIER_TRANSCRIPT"] = ["%s:%s" % ({"append_scalar": "s", "append_commitment": "c", "challenge_scalar": "ch"}[k], l) for (k, l) in seqv]
    # ---- which VALUE goes under which label (a swapped / duplicated argument keeps the label list intact)
    def bound_args(body, what):
        pairs = []
        for m in re.finditer(r"\.\s*(append_scalar|append_commitment)\(\s*b\"([^\"]+)\"\s*,\s*([^;]*?)\)\s*[;)]", body, flags=re.S):
            arg = re.sub(r"\s+", "", m.group(3)).rstrip(",")
            last = re.findall(r"[A-Za-z_][A-Za-z0-9_]*", arg)
            if not last:
                raise Missing("%s: argument of label %s" % (what, m.group(2)))
            pairs.append("%s=%s" % (m.group(2), last[-1]))
        if not pairs:
            raise Missing(what + ": no append calls found")
        return pairs
    lv = one(r"pub\(crate\) fn verify_legacy\(.*?\n    \}\n", pf, "Proof::verify_legacy body").group(0)
    for nm, bd, what in (("SEED", sb, "seed_transcript_inner"), ("PROVER", body, "prove_inner"), ("VERIFIER", vb, "Proof::verify"),
                         ("VERIFIER_LEGACY", lv, "Proof::verify_legacy")):
        prs = bound_args(bd, what)
        lists[nm + "_BOUND_LABELS"] = [x.split("=")[0] for x in prs]
        lists[nm + "_BOUND_FIELDS"] = [x.split("=")[1] for x in prs]
    return out, lists

def lean_nat(v):
    return "0x%x" % v if v > 2**32 else str(v)

def render(out, lists):
    lines = ["/-", "  GENERATED by tools/extract.py from /repo/src — do not edit.",
             "  Regenerated on every check run; theorems that mention `Generated.*` are re-checked",
             "  by `lake build` whenever a value changes.", "-/", "namespace Plonk.Generated", ""]
    for k in sorted(out):
        lines.append("def %s : Nat := %s" % (k, lean_nat(out[k])))
    lines.append("")
    for k in sorted(lists):
        items = ", ".join('"%s"' % x for x in lists[k])
        lines.append("def %s : List String := [%s]" % (k, items))
    lines += ["", "end Plonk.Generated", ""]
    return "\n".join(lines)

def main():
    ap = argparse.ArgumentParser()
    ap.add_argument("--repo", default="/repo")
    ap.add_argument("--out", default=os.path.join(os.path.dirname(__file__), "..", "lean", "Plonk", "Generated.lean"))
    ap.add_argument("--json", default=None)
    a = ap.parse_args()
    try:
        out, lists = extract(a.repo)
    except Missing as e:
        print("EXTRACT-ANCHOR-MISSING: %s" % e)
        sys.exit(3)
    txt = render(out, lists)
    old = None
    if os.path.exists(a.out):
        old = open(a.out).read()
    if old != txt:
        with open(a.out, "w") as f:
            f.write(txt)
    if a.json:
        with open(a.json, "w") as f:
            json.dump({"consts": {k: str(v) for k, v in out.items()}, "lists": lists}, f, indent=1)
    print("extract ok: %d constants, %d lists%s" % (len(out), len(lists), "" if old == txt else " (Generated.lean rewritten)"))

if __name__ == "__main__":
    main()
