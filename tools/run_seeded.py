#!/usr/bin/env python3
"""Run checks against a seeded change: apply seeded/<id>/patch.diff to /repo, run the given checks (quick tier),
undo the change, and record the verdicts in seeded/<id>/results.json.

  python3 tools/run_seeded.py <id> [C16 C01 ...]      (default: the property named in meta.json)
"""
import json, os, subprocess, sys, time
VERIF = os.path.dirname(os.path.dirname(os.path.abspath(__file__)))
REPO = "/repo"


def main():
    sid = sys.argv[1]
    d = os.path.join(VERIF, "seeded", sid)
    meta = json.load(open(os.path.join(d, "meta.json")))
    props = sys.argv[2:] or [meta["property"]]
    st = subprocess.run(["git", "-C", REPO, "status", "--porcelain"], capture_output=True, text=True).stdout.strip()
    if st:
        print("refusing: /repo has local changes:\n" + st)
        sys.exit(2)
    res = {}
    try:
        subprocess.run(["git", "-C", REPO, "apply", os.path.join(d, "patch.diff")], check=True)
        for p in props:
            t0 = time.time()
            r = subprocess.run([sys.executable, os.path.join(VERIF, "tools", "run_check.py"), "--prop", p, "--tier", "quick"],
                               capture_output=True, text=True, cwd=VERIF)
            lines = [l for l in r.stdout.split("\n") if l.startswith("VIOLATION") or l.startswith("OK") or l.startswith("KNOWN")]
            lines.sort(key=lambda l: 0 if l.startswith("VIOLATION") else 1)
            res[p] = {"exit": r.returncode, "lines": lines[:6], "wall_s": round(time.time() - t0, 1)}
            print(p, r.returncode, lines[:3])
    finally:
        subprocess.run(["git", "-C", REPO, "checkout", "--", "."])
    out = os.path.join(d, "results.json")
    old = json.load(open(out)) if os.path.exists(out) else {}
    old.update(res)
    json.dump(old, open(out, "w"), indent=1)


if __name__ == "__main__":
    main()
