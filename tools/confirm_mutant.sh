#!/bin/bash
# confirm a seeded change in its scratch worktree: demo fails with it, passes without it, full suite passes with it.
# usage: tools/confirm_mutant.sh <name> <worktree> <outdir>     (outdir has patch.diff + demo_test.rs)
set -u
NAME=$1; WT=$2; OUT=$3
cd "$WT" || exit 2
git checkout -q -- . ; git clean -fdq tests/ 2>/dev/null
git apply "$OUT/patch.diff" || { echo "patch does not apply"; exit 2; }
DEMO=""
FEAT=""
if [ -f "$OUT/demo_test.rs" ]; then
  cp "$OUT/demo_test.rs" tests/zz_demo_$NAME.rs; DEMO="--test zz_demo_$NAME"
  FL=""
  if grep -q "verif_\|features verif\|feature verif\|verif::" "$OUT/demo_test.rs"; then FL="verif"; fi
  if grep -q "legacy-proving" "$OUT/demo_test.rs"; then FL="${FL:+$FL,}legacy-proving"; fi
  if [ -n "$FL" ]; then FEAT="--features $FL"; fi
fi
LOG="$OUT/confirm.log"; : > "$LOG"
if [ -n "$DEMO" ]; then
  echo "== demo WITH change" >> "$LOG"
  cargo test -j 6 --release --offline $FEAT $DEMO >> "$LOG" 2>&1; WITH=$?
  git apply -R "$OUT/patch.diff"
  echo "== demo WITHOUT change" >> "$LOG"
  cargo test -j 6 --release --offline $FEAT $DEMO >> "$LOG" 2>&1; WITHOUT=$?
  git apply "$OUT/patch.diff"
  rm -f tests/zz_demo_$NAME.rs
else
  WITH=na; WITHOUT=na
fi
echo "== full suite WITH change" >> "$LOG"
cargo test -j 6 --release --offline >> "$LOG" 2>&1; SUITE=$?
echo "RESULT name=$NAME demo_with=$WITH demo_without=$WITHOUT suite_with=$SUITE" | tee -a "$LOG"
