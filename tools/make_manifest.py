#!/usr/bin/env python3
"""Regenerate MANIFEST.json from tools/manifest_data.py (kept valid at all times)."""
import json, os, sys
HERE = os.path.dirname(os.path.abspath(__file__))
sys.path.insert(0, HERE)
import manifest_data as md
props = [json.loads(l) for l in open(os.path.join(HERE, "..", "properties.jsonl"))]
ids = [p["id"] for p in props]
checks = []
for pid in ids:
    if pid not in md.CLAIMS or not os.path.exists(os.path.join(HERE, "props", pid.lower() + ".py")):
        continue
    c = md.CLAIMS[pid]
    checks.append({
        "property_id": pid,
        "quick_cmd": "python3 tools/run_check.py --prop %s --tier quick" % pid,
        "thorough_cmd": "python3 tools/run_check.py --prop %s --tier thorough" % pid,
        "evidence_file": "evidence/%s.json" % pid,
        "replay_cmd_template": "python3 tools/replay.py {path}",
        "engine": "lean-model+rust-harness",
        "level_claimed": {"category": "proof", "text": c["text"], "design_ref": c.get("design_ref", "DESIGN.md §6 " + pid)},
        "level_note": c["note"],
        "technique": c["technique"],
    })
na = [{"property_id": pid, "reason": md.NOT_APPLICABLE.get(pid, "not claimed yet: model/theorems for this property are still being built (see DESIGN.md §10 status)")}
      for pid in ids if pid not in [c["property_id"] for c in checks]]
man = {
    "version": 1,
    "setup_cmd": "sh tools/setup.sh",
    "hooks": {
        "guard": "verif",
        "enable": "cargo feature: --features verif (the harness crate depends on /repo with features=[\"verif\"])",
        "baseline_off_cmd": "cd /repo && cargo test --workspace --no-fail-fast --offline",
        "source_commits": md.HOOK_COMMITS,
        "add_only": True,
    },
    "engines": [
        {"name": "lean-model", "path": "lean", "serves_properties": sorted(md.CLAIMS), "kind_free_text": "Lean 4 lake project: executable import-free model (Plonk/Model), proofs (Plonk/Proofs, single Mathlib modules), property theorems (Plonk/Props), axiom audit (Plonk/Audit), native line-protocol driver (Main.lean)"},
        {"name": "rust-harness", "path": "harness", "serves_properties": sorted(md.CLAIMS), "kind_free_text": "Rust crate with a path dependency on /repo (feature verif): runs the real code in-process on the same request lines as the Lean driver"},
        {"name": "extractor", "path": "tools/extract.py", "serves_properties": sorted(md.CLAIMS), "kind_free_text": "regenerates lean/Plonk/Generated.lean (constants, bounds, transcript orders) from /repo/src on every run"},
    ],
    "checks": checks,
    "not_applicable": na,
    "notes": "Machine-checked proof in Lean 4 about a hand-written executable model, tied to the code by a translator for constants (Generated.lean) and a differential correspondence check (harness vs. native Lean driver) on every run. See DESIGN.md.",
}
json.dump(man, open(os.path.join(HERE, "..", "MANIFEST.json"), "w"), indent=1)
print("MANIFEST.json: %d checks, %d not claimed" % (len(checks), len(na)))
