//! alloc-only (no std features in dusk-plonk) twin of the `prove` command of the main harness, restricted to the
//! program ops that need no verification hooks. Used by C18: std and alloc-only builds must produce identical bytes.
#[path = "../../harness/src/util.rs"]
#[allow(dead_code)]
mod util;

use std::io::{BufRead, Write};

use dusk_bls12_381::BlsScalar;
use dusk_bytes::Serializable;
use dusk_plonk::prelude::*;
use util::*;

#[derive(Default, Clone)]
struct ProgCircuit {
    src: String,
}

fn wit(regs: &[Witness], t: &str) -> Option<Witness> {
    if let Some(k) = t.strip_prefix('$') {
        regs.get(k.parse::<usize>().ok()?).copied()
    } else if t == "#0" {
        Some(Composer::ZERO)
    } else if t == "#1" {
        Some(Composer::ONE)
    } else {
        None
    }
}

fn constraint(q: &[BlsScalar], pi: &str) -> Option<Constraint> {
    let c = Constraint::new().mult(q[0]).left(q[1]).right(q[2]).output(q[3]).fourth(q[4]).constant(q[5]);
    if pi == "-" { Some(c) } else { Some(c.public(fe_from_hex(pi)?)) }
}

impl Circuit for ProgCircuit {
    fn circuit(&self, c: &mut Composer) -> Result<(), Error> {
        let mut regs: Vec<Witness> = vec![];
        for op in self.src.split(';') {
            let t: Vec<&str> = op.split(' ').filter(|s| !s.is_empty()).collect();
            if t.is_empty() {
                continue;
            }
            let bad = || Error::InvalidCompressedCircuit;
            match (t[0], t.len()) {
                ("w", 2) => regs.push(c.append_witness(fe_from_hex(t[1]).ok_or_else(bad)?)),
                ("pub", 2) => regs.push(c.append_public(fe_from_hex(t[1]).ok_or_else(bad)?)),
                ("const", 2) => regs.push(c.append_constant(fe_from_hex(t[1]).ok_or_else(bad)?)),
                ("bool", 2) => c.component_boolean(wit(&regs, t[1]).ok_or_else(bad)?),
                ("aeq", 3) => c.assert_equal(wit(&regs, t[1]).ok_or_else(bad)?, wit(&regs, t[2]).ok_or_else(bad)?),
                ("gate", 12) => {
                    let q: Option<Vec<BlsScalar>> = t[1..7].iter().map(|x| fe_from_hex(x)).collect();
                    let w: Option<Vec<Witness>> = t[8..12].iter().map(|x| wit(&regs, x)).collect();
                    let (q, w) = (q.ok_or_else(bad)?, w.ok_or_else(bad)?);
                    c.append_gate(constraint(&q, t[7]).ok_or_else(bad)?.a(w[0]).b(w[1]).c(w[2]).d(w[3]));
                }
                ("gadd", 10) | ("gmul", 10) => {
                    let q: Option<Vec<BlsScalar>> = t[1..6].iter().map(|x| fe_from_hex(x)).collect();
                    let w: Option<Vec<Witness>> = t[7..10].iter().map(|x| wit(&regs, x)).collect();
                    let (q, w) = (q.ok_or_else(bad)?, w.ok_or_else(bad)?);
                    let q6 = [q[0], q[1], q[2], BlsScalar::zero(), q[3], q[4]];
                    let k = constraint(&q6, t[6]).ok_or_else(bad)?.a(w[0]).b(w[1]).d(w[2]);
                    regs.push(if t[0] == "gadd" { c.gate_add(k) } else { c.gate_mul(k) });
                }
                ("rangebits", 3) => {
                    let w = wit(&regs, t[2]).ok_or_else(bad)?;
                    match t[1] {
                        "2" => c.component_range_bits::<2>(w),
                        "8" => c.component_range_bits::<8>(w),
                        "16" => c.component_range_bits::<16>(w),
                        "64" => c.component_range_bits::<64>(w),
                        _ => return Err(bad()),
                    }
                }
                ("xor", 4) => {
                    let (a, b) = (wit(&regs, t[2]).ok_or_else(bad)?, wit(&regs, t[3]).ok_or_else(bad)?);
                    regs.push(match t[1] {
                        "4" => c.append_logic_xor::<4>(a, b),
                        "32" => c.append_logic_xor::<32>(a, b),
                        _ => return Err(bad()),
                    });
                }
                _ => return Err(bad()),
            }
        }
        Ok(())
    }
}

fn list(l: &[BlsScalar]) -> String {
    if l.is_empty() { "-".into() } else { l.iter().map(fe_hex).collect::<Vec<_>>().join(",") }
}

fn prove_line(line: &str) -> String {
    let parts: Vec<&str> = line.split("||").collect();
    if parts.len() != 3 {
        return "bad-request".into();
    }
    let h: Vec<&str> = parts[0].split_whitespace().collect();
    if h.len() < 8 || h[0] != "prove" {
        return "bad-request".into();
    }
    let deg: usize = match h[1].parse() {
        Ok(d) => d,
        Err(_) => return "bad-request".into(),
    };
    let script: Option<Vec<Vec<u8>>> = h[2..5].iter().map(|x| hex_bytes(x).filter(|b| b.len() == 64)).collect();
    let draws: Option<Vec<Vec<u8>>> = h[6].split(',').map(|d| hex_bytes(d).filter(|b| b.len() == 64)).collect();
    let (script, draws, label) = match (script, draws, hex_bytes(h[5])) {
        (Some(a), Some(b), Some(c)) => (a, b, c),
        _ => return "bad-request".into(),
    };
    let mut srng = ScriptRng::scripted(0xdead, script);
    let pp = match PublicParameters::setup(deg, &mut srng) {
        Ok(pp) => pp,
        Err(e) => return format!("err:srs:{:?}", e),
    };
    let ca = ProgCircuit { src: parts[1].trim().to_string() };
    let cb = ProgCircuit { src: parts[2].trim().to_string() };
    let (prover, verifier) = match Compiler::compile_with_circuit(&pp, &label, &ca) {
        Ok(x) => x,
        Err(e) => return format!("err:compile:{:?}", e).split('(').next().unwrap().to_string(),
    };
    let vb = verifier.to_bytes();
    let mut hsh = Hasher::new();
    for b in &vb {
        hsh.push_u64(*b as u64);
    }
    let mut rng = ScriptRng::scripted(0xabc, draws);
    match prover.prove(&mut rng, &cb) {
        Ok((proof, pis)) => {
            let own = verifier.verify(&proof, &pis).is_ok();
            format!("proof={} pis={} vh={} calls={}{}", bytes_hex(&proof.to_bytes()), list(&pis), hsh.hex(), rng.calls, if own { "" } else { " own=REJECTED" })
        }
        Err(Error::CircuitUnsatisfied) => format!("err:unsat vh={}", hsh.hex()),
        Err(e) => format!("err:other:{:?}", e).replace(' ', "_"),
    }
}

fn main() {
    let stdin = std::io::stdin();
    let stdout = std::io::stdout();
    let mut out = stdout.lock();
    for line in stdin.lock().lines() {
        let line = line.expect("stdin");
        if line.trim().is_empty() {
            continue;
        }
        let r = std::panic::catch_unwind(|| prove_line(line.trim())).unwrap_or_else(|_| "panic".to_string());
        writeln!(out, "{}", r).unwrap();
    }
}
